"""E0 -- program model and constant resolver.

Parses the repository's sources with ``ast`` (never imports them) and offers
name resolution across modules.  Everything here is re-derived from the
working tree on every run.
"""
from __future__ import annotations

import ast
import json
import os
from dataclasses import dataclass, field
from typing import Any, Dict, List, Optional, Tuple


class AnalysisError(Exception):
    """The analysis itself cannot proceed (vanished anchor, unparsable file,
    construct a rule was not taught).  Reported as ANALYSIS-ERROR / exit 2,
    never as a violation and never as a pass."""


class _Unknown:
    def __repr__(self):
        return "UNKNOWN"

    def __bool__(self):
        return False


UNKNOWN = _Unknown()


@dataclass(frozen=True)
class EnumMember:
    cls: str  # qualified class name
    member: str

    def __repr__(self):
        return f"{self.cls.rsplit('.', 1)[-1]}.{self.member}"


@dataclass
class FuncInfo:
    qname: str
    name: str
    module: "ModuleInfo"
    cls: Optional["ClassInfo"]
    node: ast.FunctionDef
    kind: str  # function | method | static | class | property | setter

    @property
    def params(self) -> List[str]:
        a = self.node.args
        return [x.arg for x in a.posonlyargs + a.args] + [x.arg for x in a.kwonlyargs]

    @property
    def pos_params(self) -> List[str]:
        a = self.node.args
        return [x.arg for x in a.posonlyargs + a.args]

    @property
    def bound(self) -> bool:
        return self.kind in ("method", "class", "property", "setter")

    @property
    def call_params(self) -> List[str]:
        """positional parameters as seen by a caller using obj.f(...)"""
        p = self.pos_params
        return p[1:] if self.bound else p

    def default_of(self, name: str):
        a = self.node.args
        pos = a.posonlyargs + a.args
        nd = len(a.defaults)
        for i, arg in enumerate(pos):
            if arg.arg == name:
                j = i - (len(pos) - nd)
                return a.defaults[j] if j >= 0 else None
        for arg, d in zip(a.kwonlyargs, a.kw_defaults):
            if arg.arg == name:
                return d
        return None

    def annotation_of(self, name: str):
        a = self.node.args
        for arg in a.posonlyargs + a.args + a.kwonlyargs:
            if arg.arg == name:
                return arg.annotation
        return None

    @property
    def file(self) -> str:
        return self.module.relpath

    def loc(self, node=None) -> str:
        n = node if node is not None else self.node
        return f"{self.module.relpath}:{getattr(n, 'lineno', '?')}"


@dataclass
class ClassInfo:
    qname: str
    name: str
    module: "ModuleInfo"
    node: ast.ClassDef
    bases: List[str] = field(default_factory=list)  # resolved qualified names (or raw)
    methods: Dict[str, FuncInfo] = field(default_factory=dict)
    setters: Dict[str, FuncInfo] = field(default_factory=dict)
    class_attrs: Dict[str, ast.expr] = field(default_factory=dict)


@dataclass
class ModuleInfo:
    name: str
    path: str
    relpath: str
    tree: ast.Module
    source: str
    imports: Dict[str, Tuple] = field(default_factory=dict)
    consts: Dict[str, ast.expr] = field(default_factory=dict)
    const_multi: Dict[str, int] = field(default_factory=dict)
    functions: Dict[str, FuncInfo] = field(default_factory=dict)
    classes: Dict[str, ClassInfo] = field(default_factory=dict)


CORE_GLOBS = [
    ("src/metapype", "metapype"),
]
EXTRA_FILES = [("utils/convert.py", "utils.convert")]


class Program:
    def __init__(self, root: Optional[str] = None, wide: bool = False, trees: Optional[Dict[str, ast.Module]] = None, moved: Optional[dict] = None):
        self.root = root or os.environ.get("SA_REPO", "/repo")
        self.trees = trees  # pre-parsed (normalised) module trees replacing the parse of the files
        self.moved = moved or {}  # (module, function name) -> {q, kind, cls}: functions filed under their baseline name (normalize.recover_moves)
        self.modules: Dict[str, ModuleInfo] = {}
        self.funcs: Dict[str, FuncInfo] = {}
        self.classes: Dict[str, ClassInfo] = {}
        self.wide = wide
        self._load()

    # ------------------------------------------------------------------ load
    def _load(self):
        src = os.path.join(self.root, "src", "metapype")
        if not os.path.isdir(src):
            raise AnalysisError(f"anchor vanished: {src} is not a directory")
        files = []
        for dirpath, dirnames, filenames in os.walk(src):
            dirnames[:] = sorted(d for d in dirnames if d != "__pycache__")
            for fn in sorted(filenames):
                if fn.endswith(".py"):
                    p = os.path.join(dirpath, fn)
                    rel = os.path.relpath(p, os.path.join(self.root, "src"))
                    mod = rel[:-3].replace(os.sep, ".")
                    if mod.endswith(".__init__"):
                        mod = mod[: -len(".__init__")]
                    files.append((p, mod))
        for rel, mod in EXTRA_FILES:
            p = os.path.join(self.root, rel)
            if os.path.isfile(p):
                files.append((p, mod))
        if self.wide:
            tdir = os.path.join(self.root, "tests")
            if os.path.isdir(tdir):
                for fn in sorted(os.listdir(tdir)):
                    if fn.endswith(".py"):
                        files.append((os.path.join(tdir, fn), "tests." + fn[:-3]))
        for p, mod in files:
            try:
                with open(p, encoding="utf-8") as f:
                    source = f.read()
                tree = self.trees[mod] if self.trees is not None and mod in self.trees else ast.parse(source, filename=p)
            except (OSError, SyntaxError, UnicodeDecodeError) as e:
                raise AnalysisError(f"cannot parse {p}: {e}")
            mi = ModuleInfo(mod, p, os.path.relpath(p, self.root), tree, source)
            self.modules[mod] = mi
        for mi in self.modules.values():
            self._index_module(mi)
        for ci in self.classes.values():
            ci.bases = [self._resolve_base(ci.module, b) for b in ci.node.bases]
        for (mod, fname), info in self.moved.items():
            mi = self.modules.get(mod)
            fi = mi.functions.get(fname) if mi else None
            if fi is None or info["q"] in self.funcs:
                continue
            self.funcs.pop(fi.qname, None)
            fi.qname, fi.name, fi.kind = info["q"], info["q"].rsplit(".", 1)[1], info["kind"]
            if info.get("cls") and info["cls"] in self.classes:
                fi.cls = self.classes[info["cls"]]
                fi.cls.methods[fi.name] = fi
            self.funcs[fi.qname] = fi

    def _index_module(self, mi: ModuleInfo):
        for st in mi.tree.body:
            self._index_stmt(mi, st)

    def _index_stmt(self, mi, st):
        if isinstance(st, ast.Import):
            for a in st.names:
                local = a.asname or a.name.split(".")[0]
                target = a.name if a.asname else a.name.split(".")[0]
                mi.imports[local] = ("module", target)
        elif isinstance(st, ast.ImportFrom):
            base = st.module or ""
            if st.level:
                parts = mi.name.split(".")
                parts = parts[: len(parts) - st.level]
                base = ".".join(parts + ([st.module] if st.module else []))
            for a in st.names:
                local = a.asname or a.name
                full = f"{base}.{a.name}"
                if full in self.modules_or_files(full):
                    mi.imports[local] = ("module", full)
                else:
                    mi.imports[local] = ("attr", base, a.name)
        elif isinstance(st, (ast.Assign, ast.AnnAssign)):
            targets = st.targets if isinstance(st, ast.Assign) else [st.target]
            value = st.value
            if value is None:
                return
            for t in targets:
                if isinstance(t, ast.Name):
                    mi.const_multi[t.id] = mi.const_multi.get(t.id, 0) + 1
                    mi.consts[t.id] = value
                elif isinstance(t, (ast.Tuple, ast.List)) and all(isinstance(x, ast.Name) for x in t.elts):
                    # A, B, C = x, y, z   /   A, B, C = range(3): each name is the element at its position
                    for i, x in enumerate(t.elts):
                        mi.const_multi[x.id] = mi.const_multi.get(x.id, 0) + 1
                        if isinstance(value, (ast.Tuple, ast.List)) and len(value.elts) == len(t.elts) and not any(isinstance(e, ast.Starred) for e in value.elts):
                            mi.consts[x.id] = value.elts[i]
                        else:
                            mi.consts[x.id] = ast.copy_location(ast.Subscript(value=value, slice=ast.Constant(value=i), ctx=ast.Load()), value)
        elif isinstance(st, (ast.FunctionDef, ast.AsyncFunctionDef)):
            fi = FuncInfo(f"{mi.name}.{st.name}", st.name, mi, None, st, "function")
            mi.functions[st.name] = fi
            self.funcs[fi.qname] = fi
        elif isinstance(st, ast.ClassDef):
            ci = ClassInfo(f"{mi.name}.{st.name}", st.name, mi, st)
            mi.classes[st.name] = ci
            self.classes[ci.qname] = ci
            for b in st.body:
                if isinstance(b, (ast.FunctionDef, ast.AsyncFunctionDef)):
                    kind = "method"
                    for d in b.decorator_list:
                        if isinstance(d, ast.Name) and d.id == "staticmethod":
                            kind = "static"
                        elif isinstance(d, ast.Name) and d.id == "classmethod":
                            kind = "class"
                        elif isinstance(d, ast.Name) and d.id == "property":
                            kind = "property"
                        elif isinstance(d, ast.Attribute) and d.attr == "setter":
                            kind = "setter"
                    fi = FuncInfo(f"{ci.qname}.{b.name}", b.name, mi, ci, b, kind)
                    if kind == "setter":
                        fi.qname += ".setter"
                        ci.setters[b.name] = fi
                    else:
                        ci.methods[b.name] = fi
                    self.funcs[fi.qname] = fi
                elif isinstance(b, ast.Assign):
                    for t in b.targets:
                        if isinstance(t, ast.Name):
                            ci.class_attrs[t.id] = b.value
                elif isinstance(b, ast.AnnAssign) and b.value is not None and isinstance(b.target, ast.Name):
                    ci.class_attrs[b.target.id] = b.value
        elif isinstance(st, ast.If):
            # e.g. ``if __name__ == "__main__"`` -- index nothing inside
            pass
        elif isinstance(st, ast.Try):
            for b in st.body:
                self._index_stmt(mi, b)

    def modules_or_files(self, full: str):
        # is ``full`` a module of the analysed program?
        if full in self.modules:
            return {full}
        p = os.path.join(self.root, "src", *full.split("."))
        if os.path.isfile(p + ".py") or os.path.isdir(p):
            return {full}
        return set()

    def _resolve_base(self, mi: ModuleInfo, b: ast.expr) -> str:
        r = self.resolve_name_expr(mi, b)
        if r and r[0] == "class":
            return r[1].qname
        if r and r[0] == "external":
            return r[1]
        if isinstance(b, ast.Name):
            return b.id
        return ast.unparse(b)

    # ------------------------------------------------------------ resolution
    def resolve_name_expr(self, mi: ModuleInfo, e: ast.expr):
        """Resolve a Name/Attribute chain appearing in module ``mi`` to
        ('module', ModuleInfo) | ('class', ClassInfo) | ('func', FuncInfo) |
        ('const', ModuleInfo, name) | ('external', dotted) | None."""
        if isinstance(e, ast.Name):
            n = e.id
            if n in mi.classes:
                return ("class", mi.classes[n])
            if n in mi.functions:
                return ("func", mi.functions[n])
            if n in mi.consts:
                return ("const", mi, n)
            if n in mi.imports:
                imp = mi.imports[n]
                if imp[0] == "module":
                    if imp[1] in self.modules:
                        return ("module", self.modules[imp[1]])
                    return ("external", imp[1])
                _, base, attr = imp
                if base in self.modules:
                    m2 = self.modules[base]
                    return self.resolve_name_expr(m2, ast.Name(id=attr, ctx=ast.Load()))
                return ("external", f"{base}.{attr}")
            return None
        if isinstance(e, ast.Attribute):
            base = self.resolve_name_expr(mi, e.value)
            if base is None:
                return None
            if base[0] == "module":
                m2 = base[1]
                sub = f"{m2.name}.{e.attr}"
                if sub in self.modules:
                    return ("module", self.modules[sub])
                return self.resolve_name_expr(m2, ast.Name(id=e.attr, ctx=ast.Load()))
            if base[0] == "class":
                ci = base[1]
                if e.attr in ci.methods:
                    return ("func", ci.methods[e.attr])
                if e.attr in ci.class_attrs:
                    return ("classattr", ci, e.attr)
                for bq in self.mro(ci)[1:]:
                    c2 = self.classes.get(bq)
                    if c2 and e.attr in c2.methods:
                        return ("func", c2.methods[e.attr])
                return ("classattr", ci, e.attr)
            if base[0] == "external":
                return ("external", f"{base[1]}.{e.attr}")
            return None
        return None

    def mro(self, ci: ClassInfo) -> List[str]:
        out = [ci.qname]
        for b in ci.bases:
            c2 = self.classes.get(b)
            if c2:
                for x in self.mro(c2):
                    if x not in out:
                        out.append(x)
            elif b not in out:
                out.append(b)
        return out

    def is_enum(self, ci: ClassInfo) -> bool:
        return any(b in ("enum.Enum", "Enum", "enum.IntEnum") or b.endswith(".Enum") for b in self.mro(ci))

    def enum_members(self, ci: ClassInfo) -> List[str]:
        return [k for k in ci.class_attrs if not k.startswith("_")]

    # -------------------------------------------------------------- constants
    def const(self, mi: ModuleInfo, e: ast.expr, local: Optional[Dict[str, Any]] = None, depth: int = 0):
        """Fold an expression evaluated in module ``mi`` to a Python value.
        Never guesses: anything that does not fold is UNKNOWN."""
        if depth > 40:
            return UNKNOWN
        d = depth + 1
        if isinstance(e, ast.Constant):
            return e.value
        if isinstance(e, ast.Name):
            if local and e.id in local:
                return local[e.id]
            if e.id in ("True", "False", "None"):
                return {"True": True, "False": False, "None": None}[e.id]
            r = self.resolve_name_expr(mi, e)
            return self._const_of_resolved(r, d)
        if isinstance(e, ast.Attribute):
            r = self.resolve_name_expr(mi, e)
            return self._const_of_resolved(r, d)
        if isinstance(e, ast.Tuple):
            vals = [self.const(mi, x, local, d) for x in e.elts]
            return UNKNOWN if any(v is UNKNOWN for v in vals) else tuple(vals)
        if isinstance(e, ast.List):
            vals = [self.const(mi, x, local, d) for x in e.elts]
            return UNKNOWN if any(v is UNKNOWN for v in vals) else list(vals)
        if isinstance(e, ast.Set):
            vals = [self.const(mi, x, local, d) for x in e.elts]
            if any(v is UNKNOWN for v in vals):
                return UNKNOWN
            try:
                return frozenset(vals)
            except TypeError:
                return UNKNOWN
        if isinstance(e, ast.Dict):
            out = {}
            for k, v in zip(e.keys, e.values):
                if k is None:
                    sub = self.const(mi, v, local, d)
                    if not isinstance(sub, dict):
                        return UNKNOWN
                    out.update(sub)
                    continue
                kk = self.const(mi, k, local, d)
                vv = self.const(mi, v, local, d)
                if kk is UNKNOWN or vv is UNKNOWN:
                    return UNKNOWN
                try:
                    out[kk] = vv
                except TypeError:
                    return UNKNOWN
            return out
        if isinstance(e, ast.UnaryOp):
            v = self.const(mi, e.operand, local, d)
            if v is UNKNOWN:
                return UNKNOWN
            try:
                if isinstance(e.op, ast.USub):
                    return -v
                if isinstance(e.op, ast.UAdd):
                    return +v
                if isinstance(e.op, ast.Not):
                    return not v
            except TypeError:
                return UNKNOWN
            return UNKNOWN
        if isinstance(e, ast.BinOp):
            a = self.const(mi, e.left, local, d)
            b = self.const(mi, e.right, local, d)
            if a is UNKNOWN or b is UNKNOWN:
                return UNKNOWN
            try:
                if isinstance(e.op, ast.Add):
                    return a + b
                if isinstance(e.op, ast.Sub):
                    return a - b
                if isinstance(e.op, ast.Mult):
                    return a * b
            except TypeError:
                return UNKNOWN
            return UNKNOWN
        if isinstance(e, ast.JoinedStr):
            parts = []
            for v in e.values:
                if isinstance(v, ast.Constant):
                    parts.append(str(v.value))
                elif isinstance(v, ast.FormattedValue) and v.format_spec is None and v.conversion == -1:
                    x = self.const(mi, v.value, local, d)
                    if x is UNKNOWN or not isinstance(x, (str, int)):
                        return UNKNOWN
                    parts.append(str(x))
                else:
                    return UNKNOWN
            return "".join(parts)
        if isinstance(e, ast.Subscript) and not isinstance(e.slice, ast.Slice) and isinstance(e.value, (ast.Name, ast.Attribute)):
            # Enum['NAME']
            r_ = self.resolve_name_expr(mi, e.value) if not (local and isinstance(e.value, ast.Name) and e.value.id in local) else None
            if r_ and r_[0] == "class" and self.is_enum(r_[1]):
                k = self.const(mi, e.slice, local, d)
                return EnumMember(r_[1].qname, k) if isinstance(k, str) and k in self.enum_members(r_[1]) else UNKNOWN
        if isinstance(e, ast.Subscript) and not isinstance(e.slice, ast.Slice):
            c = self.const(mi, e.value, local, d)
            k = self.const(mi, e.slice, local, d)
            if c is UNKNOWN or k is UNKNOWN or not isinstance(c, (tuple, list, dict, str)):
                return UNKNOWN
            try:
                return c[k]
            except (KeyError, IndexError, TypeError):
                return UNKNOWN
        if isinstance(e, ast.Call) and isinstance(e.func, ast.Attribute) and not e.keywords and not any(isinstance(a, ast.Starred) for a in e.args) \
                and e.func.attr in ("index", "count", "get", "keys", "values", "items", "upper", "lower", "strip", "split", "join", "format", "replace", "startswith", "endswith"):
            # a read-only method of a constant (a position in a constant tuple, an entry of a constant dict, a string operation)
            recv = self.const(mi, e.func.value, local, d)
            if recv is not UNKNOWN and isinstance(recv, (tuple, list, dict, str, frozenset)):
                vals = [self.const(mi, a, local, d) for a in e.args]
                if not any(v is UNKNOWN for v in vals) and hasattr(recv, e.func.attr):
                    try:
                        out = getattr(recv, e.func.attr)(*vals)
                        return tuple(out) if e.func.attr in ("keys", "values", "items") else out
                    except (ValueError, TypeError, KeyError, IndexError):
                        return UNKNOWN
        if isinstance(e, ast.Call) and isinstance(e.func, ast.Name) and e.func.id in ("range", "enumerate", "zip", "len", "reversed") and not (local and e.func.id in local) \
                and not any(isinstance(a, ast.Starred) for a in e.args) and self.resolve_name_expr(mi, e.func) is None:
            vals = [self.const(mi, a, local, d) for a in e.args]
            kws = {k.arg: self.const(mi, k.value, local, d) for k in e.keywords if k.arg}
            if any(v is UNKNOWN for v in vals) or any(v is UNKNOWN for v in kws.values()) or any(k.arg is None for k in e.keywords):
                return UNKNOWN
            try:
                if e.func.id == "len":
                    return len(*vals)
                return tuple({"range": range, "enumerate": enumerate, "zip": zip, "reversed": reversed}[e.func.id](*vals, **kws))
            except (TypeError, ValueError):
                return UNKNOWN
        if isinstance(e, (ast.ListComp, ast.SetComp, ast.DictComp, ast.GeneratorExp)) and len(e.generators) <= 2 and not any(g.is_async for g in e.generators):
            # a table computed from another table at import time
            results = []
            budget = [4000]

            def bind(t, v, env):
                if isinstance(t, ast.Name):
                    env[t.id] = v
                    return True
                if isinstance(t, (ast.Tuple, ast.List)) and isinstance(v, (tuple, list)) and len(v) == len(t.elts) and not any(isinstance(x, ast.Starred) for x in t.elts):
                    return all(bind(x, y, env) for x, y in zip(t.elts, v))
                return False

            def gen(i, env):
                if i == len(e.generators):
                    if isinstance(e, ast.DictComp):
                        k, v = self.const(mi, e.key, env, d), self.const(mi, e.value, env, d)
                        if k is UNKNOWN or v is UNKNOWN:
                            return False
                        results.append((k, v))
                    else:
                        v = self.const(mi, e.elt, env, d)
                        if v is UNKNOWN:
                            return False
                        results.append(v)
                    return True
                g = e.generators[i]
                it = self.const(mi, g.iter, env, d)
                if it is UNKNOWN or not isinstance(it, (tuple, list, dict, frozenset, str)):
                    return False
                for x in (list(it) if not isinstance(it, frozenset) else sorted(it, key=repr)):
                    budget[0] -= 1
                    if budget[0] < 0:
                        return False
                    env2 = dict(env)
                    if not bind(g.target, x, env2):
                        return False
                    keep = True
                    for c in g.ifs:
                        cv = self.const(mi, c, env2, d)
                        if cv is UNKNOWN:
                            return False
                        if not cv:
                            keep = False
                            break
                    if keep and not gen(i + 1, env2):
                        return False
                return True
            if not gen(0, dict(local or {})):
                return UNKNOWN
            try:
                if isinstance(e, ast.DictComp):
                    return dict(results)
                if isinstance(e, ast.SetComp):
                    return frozenset(results)
                return tuple(results) if isinstance(e, ast.GeneratorExp) else list(results)
            except TypeError:
                return UNKNOWN
        if isinstance(e, ast.Compare) and len(e.ops) == 1 and isinstance(e.ops[0], (ast.Eq, ast.NotEq, ast.In, ast.NotIn, ast.Is, ast.IsNot)):
            a, b = self.const(mi, e.left, local, d), self.const(mi, e.comparators[0], local, d)
            if a is UNKNOWN or b is UNKNOWN:
                return UNKNOWN
            try:
                op = e.ops[0]
                return (a == b) if isinstance(op, ast.Eq) else (a != b) if isinstance(op, ast.NotEq) else (a in b) if isinstance(op, ast.In) else (a not in b) \
                    if isinstance(op, ast.NotIn) else (a is b) if isinstance(op, ast.Is) else (a is not b)
            except TypeError:
                return UNKNOWN
        if isinstance(e, ast.Call) and isinstance(e.func, ast.Name) and e.func.id in ("frozenset", "set", "tuple", "list", "dict", "sorted") and not e.keywords \
                and len(e.args) <= 1 and not (local and e.func.id in local):
            # a constructor of a constant container over a constant argument
            if not e.args:
                return {"frozenset": frozenset(), "set": frozenset(), "tuple": (), "list": [], "dict": {}, "sorted": UNKNOWN}[e.func.id]
            v = self.const(mi, e.args[0], local, d)
            if v is UNKNOWN:
                return UNKNOWN
            try:
                if e.func.id in ("frozenset", "set"):
                    return frozenset(v)
                if e.func.id == "tuple":
                    return tuple(v)
                if e.func.id == "list":
                    return list(v)
                if e.func.id == "sorted":
                    return sorted(v)
                if e.func.id == "dict":
                    return dict(v)
            except (TypeError, ValueError):
                return UNKNOWN
        return UNKNOWN

    def _const_of_resolved(self, r, depth):
        if r is None:
            return UNKNOWN
        if r[0] == "const":
            _, m2, name = r
            if m2.const_multi.get(name, 0) != 1:
                return UNKNOWN  # re-assigned at module level: not a constant
            return self.const(m2, m2.consts[name], None, depth)
        if r[0] == "classattr":
            _, ci, attr = r
            if self.is_enum(ci):
                if attr in ci.class_attrs:
                    return EnumMember(ci.qname, attr)
                return UNKNOWN
            if attr in ci.class_attrs:
                return self.const(ci.module, ci.class_attrs[attr], None, depth)
        return UNKNOWN

    # -------------------------------------------------------------- utilities
    def module(self, name: str) -> ModuleInfo:
        if name not in self.modules:
            raise AnalysisError(f"anchor vanished: module {name}")
        return self.modules[name]

    def func(self, qname: str) -> FuncInfo:
        if qname not in self.funcs:
            raise AnalysisError(f"anchor vanished: function {qname}")
        return self.funcs[qname]

    def cls(self, qname: str) -> ClassInfo:
        if qname not in self.classes:
            raise AnalysisError(f"anchor vanished: class {qname}")
        return self.classes[qname]

    def load_rules_json(self):
        p = os.path.join(self.root, "src", "metapype", "eml", "rules.json")
        try:
            with open(p, encoding="utf-8") as f:
                return json.load(f, object_pairs_hook=_pairs_hook)
        except (OSError, ValueError) as e:
            raise AnalysisError(f"cannot read rules.json: {e}")


class DupKeyDict(dict):
    """dict that remembers duplicate keys seen while loading JSON"""

    dups: list


def _pairs_hook(pairs):
    d = DupKeyDict()
    d.dups = []
    for k, v in pairs:
        if k in d:
            d.dups.append(k)
        d[k] = v
    return d


def norm(node: ast.AST) -> str:
    """normalised construct text (no positions): the key used for findings"""
    try:
        s = ast.unparse(node)
    except Exception:
        s = ast.dump(node)
    s = " ".join(s.split())
    return s if len(s) <= 160 else s[:157] + "..."


def iter_funcs_in_module(mi: ModuleInfo):
    for f in mi.functions.values():
        yield f
    for c in mi.classes.values():
        for f in c.methods.values():
            yield f
        for f in c.setters.values():
            yield f
