"""Constant folding of *pure* repository fragments over table constants and
abstract sample points.

Used to (a) fold the modality predicates and the flattening helper of rule.py
over every children spec of rules.json (finite table, exhaustive) and (b)
evaluate reject-conditions (range checks, thresholds, occurrence comparisons)
over a finite abstract domain of points.  Only a small pure subset of Python is
understood; anything else raises PEvalUnsupported and the caller reports
ANALYSIS-ERROR rather than guessing.  The repository itself is never imported
or executed."""
from __future__ import annotations

import ast
import math
from typing import Any, Dict, List, Optional

from .model import UNKNOWN, AnalysisError, FuncInfo, norm


class _SetLikeList(list):
    """dict.keys() / dict.items() folded: a list (ordered, indexable by the folder) that also answers the set operators"""

    def __and__(self, o):
        return set(self) & set(o)

    def __or__(self, o):
        return set(self) | set(o)

    def __sub__(self, o):
        return set(self) - set(o)

    def __xor__(self, o):
        return set(self) ^ set(o)

    __rand__, __ror__ = __and__, __or__

    # dict views compare as sets (subset / superset / equality), not as sequences
    def __le__(self, o):
        return set(self) <= set(o)

    def __lt__(self, o):
        return set(self) < set(o)

    def __ge__(self, o):
        return set(self) >= set(o)

    def __gt__(self, o):
        return set(self) > set(o)

    def __eq__(self, o):
        if isinstance(o, (set, frozenset, _SetLikeList)):
            return set(self) == set(o)
        return False  # a dict view never equals a list or a tuple

    def __ne__(self, o):
        return not self.__eq__(o)

    __hash__ = None

    def isdisjoint(self, o):
        return set(self).isdisjoint(o)


class PEvalUnsupported(Exception):
    pass


class Raised(Exception):
    def __init__(self, cls, node=None):
        super().__init__(cls)
        self.cls = cls
        self.node = node


class Opaque:
    """a value the folder knows nothing about except its name"""

    def __init__(self, name):
        self.name = name

    def __repr__(self):
        return f"<{self.name}>"


def _walk_own(fn_node):
    """nodes of a function body without those of nested functions / lambdas / classes"""
    todo = list(fn_node.body)
    while todo:
        n = todo.pop()
        yield n
        for c in ast.iter_child_nodes(n):
            if not isinstance(c, (ast.FunctionDef, ast.AsyncFunctionDef, ast.Lambda, ast.ClassDef)):
                todo.append(c)


class _Closure:
    """a nested def / lambda: the code, the environment it was created in (by reference: late binding, as in Python) and the enclosing function"""
    def __init__(self, node, env, fi):
        self.node, self.env, self.fi = node, env, fi


class _Partial:
    """functools.partial / operator.methodcaller / attrgetter / itemgetter objects"""
    def __init__(self, kind, args, kwargs):
        self.kind, self.args, self.kwargs = kind, args, kwargs


import operator as _op

_OPERATOR_FUNCS = {"operator." + n: getattr(_op, n) for n in ("add", "sub", "mul", "truediv", "floordiv", "mod", "neg", "eq", "ne", "lt", "le", "gt", "ge", "and_", "or_", "not_", "truth",
                                                             "contains", "getitem", "iadd", "concat", "iconcat", "is_", "is_not", "countOf", "indexOf")}


class _PyFunc:
    """a function of the operator module as a value (operator.iadd handed to reduce): applied to folded values as it is"""
    def __init__(self, name):
        self.name = name


class _PyIter:
    """an iterator object made by iter(): stateful, consumed by next() / for / the builtins"""
    def __init__(self, it):
        self.it = it

    def __iter__(self):
        return self

    def __next__(self):
        return next(self.it)


class _Sentinel:
    """object(): equal only to itself"""
    def __repr__(self):
        return "<object>"


class _ModuleScope:
    """stands in for a FuncInfo when a module-level expression is folded"""
    def __init__(self, mi):
        self.module = mi
        self.cls = None
        self.kind = "function"
        self.qname = mi.name + ".<module>"
        self.params = []
        self.name = "<module>"
        self.node = None
        self.bound = False

    def loc(self, n=None):
        return self.module.relpath


class _FreshId:
    """the value of uuid.uuid1(): equal only to itself, str() of it is itself (an identifier nobody else has)"""
    def __init__(self, n):
        self.n = n

    def __str__(self):
        return f"<fresh id {self.n}>"

    def __repr__(self):
        return f"<fresh id {self.n}>"


def _has_obj(v, seen=None):
    seen = seen if seen is not None else set()
    if id(v) in seen:
        return False
    seen.add(id(v))
    if isinstance(v, dict):
        return isinstance(v.get("__obj__"), bool) or any(_has_obj(x, seen) for x in v.values())
    if isinstance(v, (list, tuple, set)):
        return any(_has_obj(x, seen) for x in v)
    return False


class _Ret(Exception):
    def __init__(self, v):
        self.v = v


class _Brk(Exception):
    pass


class _Cnt(Exception):
    pass


_TYPES = {"str": str, "list": list, "int": int, "dict": dict, "bool": bool, "tuple": tuple, "float": float}


class PEval:
    def __init__(self, world, max_steps: int = 400000):
        self.w = world
        self.prog = world.prog
        self.steps = 0
        self.max_steps = max_steps
        self.stubs: Dict[str, Any] = {}  # qualified function name -> value returned instead of folding the function
        self.class_state: Dict[tuple, Any] = {}  # (class qname, attribute) -> shared class-level value

    def _tick(self, node):
        self.steps += 1
        if self.steps > self.max_steps:
            raise PEvalUnsupported(f"step budget exhausted at {norm(node)}")

    # ------------------------------------------------------------------ calls
    def call(self, fi: FuncInfo, args: List[Any], kwargs: Optional[Dict[str, Any]] = None, depth=0):
        if depth > 60:
            raise PEvalUnsupported("recursion too deep")
        env: Dict[str, Any] = {}
        params = fi.pos_params
        a = fi.node.args
        if a.vararg or a.kwarg:
            raise PEvalUnsupported("varargs")
        kwonly = [x.arg for x in a.kwonlyargs]
        if len(args) > len(params):
            raise Raised("TypeError", fi.node)  # too many positional arguments
        for k in (kwargs or {}):
            if k not in params and k not in kwonly:
                raise Raised("TypeError", fi.node)  # unexpected keyword argument
            if k in params and params.index(k) < len(args):
                raise Raised("TypeError", fi.node)  # multiple values for one parameter
        for p, d in zip(kwonly, a.kw_defaults):
            if kwargs and p in kwargs:
                env[p] = kwargs[p]
            elif d is not None:
                env[p] = self.eval(d, {}, fi, depth)
            else:
                raise PEvalUnsupported(f"missing keyword-only argument {p} for {fi.qname}")
        for i, p in enumerate(params):
            if i < len(args):
                env[p] = args[i]
            elif kwargs and p in kwargs:
                env[p] = kwargs[p]
            else:
                d = fi.default_of(p)
                if d is None:
                    raise PEvalUnsupported(f"missing argument {p} for {fi.qname}")
                env[p] = self.eval(d, {}, fi, depth)
        if not hasattr(self, "_folding"):
            self._folding = []
        self._folding.append(id(fi.node))
        try:
            return self._call_body(fi, env, depth)
        finally:
            self._folding.pop()

    def _call_body(self, fi, env, depth):
        own = [x for x in _walk_own(fi.node)]
        if any(isinstance(x, (ast.Yield, ast.YieldFrom)) for x in own):
            # a generator function: folded eagerly (all elements produced at the call), which is what the lazy original gives whenever producing
            # an element writes nothing -- anything else is refused
            if any((isinstance(x, (ast.Attribute, ast.Subscript)) and isinstance(x.ctx, (ast.Store, ast.Del))) or isinstance(x, (ast.Global, ast.Nonlocal)) for x in own):
                raise PEvalUnsupported(f"generator function {fi.name} writes state while producing")
            if not hasattr(self, "_yields"):
                self._yields = []
            self._yields.append([])
            try:
                try:
                    self.block(fi.node.body, env, fi, depth)
                except _Ret:
                    pass
                out = self._yields[-1]
            finally:
                self._yields.pop()
            return _PyIter(iter(out))
        try:
            self.block(fi.node.body, env, fi, depth)
        except _Ret as r:
            return r.v
        return None

    def call_value(self, fv, args, kwargs, fi, depth, at=None):
        """apply a callable *value* (closure, function reference, bound method, class, partial, getter) to folded arguments"""
        kwargs = kwargs or {}
        if isinstance(fv, _Closure):
            if depth > 60:
                raise PEvalUnsupported("recursion too deep")
            a = fv.node.args
            if a.vararg or a.kwarg or a.kwonlyargs or a.posonlyargs:
                raise PEvalUnsupported("closure with star / keyword-only parameters")
            names = [x.arg for x in a.args]
            if len(args) > len(names) or any(k not in names for k in kwargs):
                raise Raised("TypeError", at or fv.node)
            env2 = dict(fv.env)
            ndef = len(a.defaults)
            for i, nme in enumerate(names):
                if i < len(args):
                    env2[nme] = args[i]
                elif nme in kwargs:
                    env2[nme] = kwargs[nme]
                elif i >= len(names) - ndef:
                    env2[nme] = self.eval(a.defaults[i - (len(names) - ndef)], fv.env, fv.fi, depth)
                else:
                    raise Raised("TypeError", at or fv.node)
            if isinstance(fv.node, ast.Lambda):
                return self.eval(fv.node.body, env2, fv.fi, depth + 1)
            if any(isinstance(x, (ast.Yield, ast.YieldFrom)) for x in ast.walk(fv.node)):
                raise PEvalUnsupported("nested generator function")
            try:
                self.block(fv.node.body, env2, fv.fi, depth + 1)
            except _Ret as r:
                return r.v
            return None
        if isinstance(fv, tuple) and len(fv) >= 2 and fv[0] == "func":
            t = fv[1]
            if t.qname in self.stubs:
                return self.stubs[t.qname]
            recv = [Opaque("cls")] if t.kind == "class" else []
            return self.call(t, recv + list(args), kwargs, depth + 1)
        if isinstance(fv, tuple) and len(fv) == 3 and fv[0] == "boundmethod":
            m, base = fv[1], fv[2]
            recv = [base] if m.kind == "method" else ([Opaque("cls")] if m.kind == "class" else [])
            return self.call(m, recv + list(args), kwargs, depth + 1)
        if isinstance(fv, _Partial):
            if fv.kind == "partial":
                return self.call_value(fv.args[0], list(fv.args[1:]) + list(args), dict(fv.kwargs, **kwargs), fi, depth, at)
            if len(args) != 1 or kwargs:
                raise Raised("TypeError", at)
            x = args[0]
            if fv.kind == "methodcaller":
                node_ = ast.Call(func=ast.Attribute(value=ast.Name(id="__recv__", ctx=ast.Load()), attr=fv.args[0], ctx=ast.Load()),
                                 args=[ast.Name(id=f"__a{i}__", ctx=ast.Load()) for i in range(len(fv.args) - 1)],
                                 keywords=[ast.keyword(arg=k, value=ast.Name(id=f"__k_{k}__", ctx=ast.Load())) for k in fv.kwargs])
                env2 = {"__recv__": x}
                env2.update({f"__a{i}__": v for i, v in enumerate(fv.args[1:])})
                env2.update({f"__k_{k}__": v for k, v in fv.kwargs.items()})
                ast.fix_missing_locations(node_)
                return self.eval_call(node_, env2, fi, depth)
            if fv.kind == "attrgetter":
                vals = [self.eval(ast.Attribute(value=ast.Name(id="__recv__", ctx=ast.Load()), attr=a_, ctx=ast.Load()), {"__recv__": x}, fi, depth) for a_ in fv.args]
                return vals[0] if len(vals) == 1 else tuple(vals)
            if fv.kind == "itemgetter":
                try:
                    vals = [x[k] for k in fv.args]
                except (KeyError, IndexError, TypeError) as ex:
                    raise Raised(type(ex).__name__, at)
                return vals[0] if len(vals) == 1 else tuple(vals)
        if isinstance(fv, _PyFunc):
            if kwargs or any(isinstance(a, Opaque) for a in args):
                raise PEvalUnsupported(f"{fv.name} of opaque")
            if any(isinstance(a, dict) and isinstance(a.get("__obj__"), bool) for a in args) and fv.name not in ("operator.is_", "operator.is_not"):
                raise PEvalUnsupported(f"{fv.name} of an abstract instance")
            try:
                return _OPERATOR_FUNCS[fv.name](*args)
            except (TypeError, ValueError, KeyError, IndexError, ZeroDivisionError) as ex:
                raise Raised(type(ex).__name__, at)
        if isinstance(fv, type) and fv in (str, int, float, bool, list, tuple, dict, set, frozenset):
            try:
                return fv(*args, **kwargs)
            except (TypeError, ValueError) as ex:
                raise Raised(type(ex).__name__, at)
        raise PEvalUnsupported("call of a value the folder does not model")

    # ------------------------------------------------------------- statements
    def block(self, stmts, env, fi, depth):
        for s in stmts:
            self.stmt(s, env, fi, depth)

    def stmt(self, s, env, fi, depth):
        self._tick(s)
        if isinstance(s, ast.Expr):
            if isinstance(s.value, ast.Constant):
                return
            self.eval(s.value, env, fi, depth)
        elif isinstance(s, ast.Assign):
            v = self.eval(s.value, env, fi, depth)
            for t in s.targets:
                self.assign(t, v, env, fi, depth)
        elif isinstance(s, ast.AnnAssign):
            if s.value is not None:
                self.assign(s.target, self.eval(s.value, env, fi, depth), env, fi, depth)
        elif isinstance(s, ast.AugAssign):
            cur = self.eval(s.target, env, fi, depth)
            v = self.eval(s.value, env, fi, depth)
            if isinstance(cur, list) and isinstance(s.op, ast.Add) and not isinstance(v, Opaque):
                # list += iterable extends the very list object (every alias sees it)
                try:
                    cur.extend(v)
                except TypeError:
                    raise Raised("TypeError", s)
                self.assign(s.target, cur, env, fi, depth)
            elif isinstance(cur, (set, dict)) and isinstance(s.op, ast.BitOr) and isinstance(v, type(cur)) and not (isinstance(cur, dict) and isinstance(cur.get("__obj__"), bool)):
                cur.update(v)
                self.assign(s.target, cur, env, fi, depth)
            elif isinstance(cur, set) and isinstance(s.op, (ast.Sub, ast.BitAnd)) and isinstance(v, (set, frozenset)):
                (cur.difference_update if isinstance(s.op, ast.Sub) else cur.intersection_update)(v)
                self.assign(s.target, cur, env, fi, depth)
            elif isinstance(cur, list) and isinstance(s.op, ast.Mult) and isinstance(v, int):
                cur *= v
                self.assign(s.target, cur, env, fi, depth)
            else:
                self.assign(s.target, self.binop(s.op, cur, v, s), env, fi, depth)
        elif isinstance(s, ast.If):
            if self.truth(self.eval(s.test, env, fi, depth), s.test):
                self.block(s.body, env, fi, depth)
            else:
                self.block(s.orelse, env, fi, depth)
        elif isinstance(s, ast.For):
            it = self.eval(s.iter, env, fi, depth)
            if isinstance(it, Opaque):
                raise PEvalUnsupported(f"iteration over opaque {it}")
            broke = False
            import types as _types
            if isinstance(it, dict) and isinstance(it.get("__obj__"), bool):
                if "__iter__" not in it:
                    raise PEvalUnsupported("iteration over an abstract instance")
                it = list(it["__iter__"])
            for x in (it if isinstance(it, (_types.GeneratorType, _PyIter)) else list(it)):
                self.assign(s.target, x, env, fi, depth)
                try:
                    self.block(s.body, env, fi, depth)
                except _Brk:
                    broke = True
                    break
                except _Cnt:
                    continue
            if not broke:
                self.block(s.orelse, env, fi, depth)
        elif isinstance(s, ast.While):
            broke = False
            while self.truth(self.eval(s.test, env, fi, depth), s.test):
                self._tick(s)
                try:
                    self.block(s.body, env, fi, depth)
                except _Brk:
                    broke = True
                    break
                except _Cnt:
                    continue
            if not broke:
                self.block(s.orelse, env, fi, depth)
        elif isinstance(s, ast.Return):
            raise _Ret(self.eval(s.value, env, fi, depth) if s.value is not None else None)
        elif isinstance(s, ast.Raise):
            cls = None
            if s.exc is not None:
                from .exc import resolve_exc_class
                cls = resolve_exc_class(self.prog, fi.module, s.exc)
            raise Raised(cls or "Exception", s)
        elif isinstance(s, ast.FunctionDef) and not s.decorator_list:
            if any(isinstance(x, (ast.Nonlocal, ast.Global)) for x in ast.walk(s)):
                raise PEvalUnsupported("nested function with nonlocal / global")
            env[s.name] = _Closure(s, env, fi)
        elif isinstance(s, ast.Delete):
            for t in s.targets:
                if isinstance(t, ast.Subscript):
                    c = self.eval(t.value, env, fi, depth)
                    k = self.eval(t.slice, env, fi, depth) if not isinstance(t.slice, ast.Slice) else None
                    if isinstance(c, Opaque) or isinstance(k, Opaque) or k is None or not isinstance(c, (list, dict)):
                        raise PEvalUnsupported("del of an opaque element")
                    try:
                        del c[k]
                    except (KeyError, IndexError, TypeError) as ex:
                        raise Raised(type(ex).__name__, s)
                elif isinstance(t, ast.Name):
                    env.pop(t.id, None)
                else:
                    raise PEvalUnsupported("del of an attribute")
        elif isinstance(s, ast.Pass):
            return
        elif isinstance(s, ast.Break):
            raise _Brk()
        elif isinstance(s, ast.Continue):
            raise _Cnt()
        elif isinstance(s, ast.Try):
            try:
                self.block(s.body, env, fi, depth)
            except Raised as r:
                from .exc import resolve_exc_class
                for h in s.handlers:
                    types = [None] if h.type is None else (h.type.elts if isinstance(h.type, ast.Tuple) else [h.type])
                    names = [None if t is None else resolve_exc_class(self.prog, fi.module, t) for t in types]
                    if any(n is None or self.w_h().issub(r.cls, n) for n in names):
                        if h.name:
                            env[h.name] = Opaque("exc")
                        self.block(h.body, env, fi, depth)
                        break
                else:
                    raise
            else:
                self.block(s.orelse, env, fi, depth)
            if s.finalbody:
                self.block(s.finalbody, env, fi, depth)
        else:
            raise PEvalUnsupported(f"statement {type(s).__name__}")

    def w_h(self):
        if not hasattr(self, "_h"):
            from .exc import Hierarchy
            self._h = Hierarchy(self.prog)
        return self._h

    def _locals_of(self, fi):
        """names the function binds somewhere in its own body (so that they are locals for the whole body, as in Python)"""
        node = getattr(fi, "node", None)
        if not isinstance(node, (ast.FunctionDef, ast.AsyncFunctionDef)):
            return ()
        cache = self.__dict__.setdefault("_locals_cache", {})
        k = id(node)
        if k not in cache:
            names, declared = set(), set()
            for x in _walk_own(node):
                if isinstance(x, ast.Name) and isinstance(x.ctx, (ast.Store, ast.Del)):
                    names.add(x.id)
                elif isinstance(x, (ast.Global, ast.Nonlocal)):
                    declared |= set(x.names)
                elif isinstance(x, ast.ExceptHandler) and x.name:
                    names.add(x.name)
                elif isinstance(x, (ast.Import, ast.ImportFrom)):
                    names |= {(a.asname or a.name).split(".")[0] for a in x.names}
                elif isinstance(x, (ast.ListComp, ast.SetComp, ast.DictComp, ast.GeneratorExp)):
                    pass
            # comprehension targets live in the comprehension's own scope
            comp_targets = set()
            for x in _walk_own(node):
                if isinstance(x, ast.comprehension):
                    comp_targets |= {n.id for n in ast.walk(x.target) if isinstance(n, ast.Name)}
            params = {a.arg for a in node.args.posonlyargs + node.args.args + node.args.kwonlyargs} | ({node.args.vararg.arg} if node.args.vararg else set()) \
                | ({node.args.kwarg.arg} if node.args.kwarg else set())
            plain_stores = set()
            for x in _walk_own(node):
                if isinstance(x, (ast.Assign, ast.AugAssign, ast.AnnAssign, ast.For, ast.With, ast.NamedExpr)):
                    tg = x.targets if isinstance(x, ast.Assign) else [x.target] if isinstance(x, (ast.AugAssign, ast.AnnAssign, ast.For, ast.NamedExpr)) else [i.optional_vars for i in x.items if i.optional_vars is not None]
                    for t in tg:
                        plain_stores |= {n.id for n in ast.walk(t) if isinstance(n, ast.Name)}
            cache[k] = (plain_stores | {h.name for h in _walk_own(node) if isinstance(h, ast.ExceptHandler) and h.name}) - declared - params
        return cache[k]

    def _module_value(self, r, depth):
        """a module-level table the plain constant folder cannot read (function references as values, a comprehension over another table,
        A | B): its defining expression folded once, in the defining module; None when it is not such a table"""
        if not (r and r[0] == "const" and r[1].const_multi.get(r[2], 0) == 1 and isinstance(r[1].consts.get(r[2]), (ast.Dict, ast.List, ast.Tuple, ast.Set, ast.DictComp, ast.ListComp,
                                                                                                                       ast.SetComp, ast.Call, ast.Subscript, ast.BinOp))):
            return None
        key = ("<module-expr>", r[1].name, r[2])
        if key not in self.class_state:
            if depth > 40:
                raise PEvalUnsupported("module table nesting")
            stub = _ModuleScope(r[1])
            self.class_state[key] = None
            try:
                self.class_state[key] = self.eval(r[1].consts[r[2]], {}, stub, depth + 1)
            except (Raised, PEvalUnsupported):
                self.class_state[key] = None  # not a table the folder can read (a logger, a compiled pattern): opaque, as before
        return self.class_state[key]

    def _module_state(self, mi, name, fi, depth):
        """module-level names that denote one long-lived object: a mutable container literal (one object per analysis, so
        that a memo table filled by one folded call is seen by the next), or the rule table loaded from rules.json"""
        key = ("<module>", mi.name, name)
        if key in self.class_state:
            return self.class_state[key]
        v = mi.consts.get(name)
        if mi.const_multi.get(name, 0) != 1 or v is None:
            return None
        if isinstance(v, (ast.Dict, ast.List, ast.Set)) and not (v.keys if isinstance(v, ast.Dict) else v.elts):
            self.class_state[key] = {} if isinstance(v, ast.Dict) else [] if isinstance(v, ast.List) else set()
            return self.class_state[key]
        if isinstance(v, ast.Call) and isinstance(v.func, ast.Name) and v.func.id in ("dict", "list", "set") and not v.args and not v.keywords:
            self.class_state[key] = {"dict": dict, "list": list, "set": set}[v.func.id]()
            return self.class_state[key]
        if isinstance(v, ast.Call):
            r = self.prog.resolve_name_expr(mi, v.func)
            if r and r[0] == "func" and self.w.is_json_loader(r[1]):
                self.class_state[key] = self.prog.load_rules_json()
                return self.class_state[key]
        return None

    def assign(self, t, v, env, fi, depth):
        if isinstance(t, ast.Name):
            env[t.id] = v
        elif isinstance(t, ast.Attribute):
            base = self.eval(t.value, env, fi, depth)
            if isinstance(base, dict) and isinstance(base.get("__obj__"), bool):
                ci_ = self.prog.classes.get(base["__class__"]) if isinstance(base.get("__class__"), str) else None
                if ci_ is not None and t.attr in ci_.setters:
                    self.call(ci_.setters[t.attr], [base, v], {}, depth + 1)
                elif ci_ is not None and t.attr in ci_.methods and ci_.methods[t.attr].kind == "property":
                    raise Raised("AttributeError", t)  # a property without a setter
                else:
                    base[t.attr] = v
            else:
                raise PEvalUnsupported(f"attribute store on {type(base).__name__}")
        elif isinstance(t, (ast.Tuple, ast.List)):
            if isinstance(v, Opaque):
                raise PEvalUnsupported("unpacking of an opaque value")
            vs = list(v)
            stars = [i for i, x in enumerate(t.elts) if isinstance(x, ast.Starred)]
            if len(stars) == 1:
                i = stars[0]
                after = len(t.elts) - i - 1
                if len(vs) < len(t.elts) - 1:
                    raise Raised("ValueError", t)
                for a, b in zip(t.elts[:i], vs[:i]):
                    self.assign(a, b, env, fi, depth)
                self.assign(t.elts[i].value, list(vs[i:len(vs) - after]), env, fi, depth)
                for a, b in zip(t.elts[i + 1:], vs[len(vs) - after:] if after else []):
                    self.assign(a, b, env, fi, depth)
                return
            if len(vs) != len(t.elts):
                raise Raised("ValueError", t)
            for a, b in zip(t.elts, vs):
                self.assign(a, b, env, fi, depth)
        elif isinstance(t, ast.Subscript):
            c = self.eval(t.value, env, fi, depth)
            k = self.eval(t.slice, env, fi, depth)
            if isinstance(c, (list, dict)):
                try:
                    c[k] = v
                except (IndexError, KeyError, TypeError) as e:
                    raise Raised(type(e).__name__, t)
            else:
                raise PEvalUnsupported("subscript store on opaque")
        else:
            raise PEvalUnsupported(f"assignment target {type(t).__name__}")

    # ------------------------------------------------------------ expressions
    def truth(self, v, node):
        if isinstance(v, Opaque):
            raise PEvalUnsupported(f"truth of opaque value in {norm(node)}")
        return bool(v)

    def binop(self, op, a, b, node):
        if isinstance(a, Opaque) or isinstance(b, Opaque):
            return Opaque("binop")
        try:
            if isinstance(op, ast.Add):
                return a + b
            if isinstance(op, ast.Sub):
                return a - b
            if isinstance(op, ast.Mult):
                return a * b
            if isinstance(op, ast.Div):
                return a / b
            if isinstance(op, ast.FloorDiv):
                return a // b
            if isinstance(op, ast.Mod):
                return a % b
            if isinstance(op, ast.BitAnd):
                return a & b
            if isinstance(op, ast.BitOr):
                return a | b
            if isinstance(op, ast.BitXor):
                return a ^ b
            if isinstance(op, ast.Pow):
                return a ** b
        except TypeError:
            raise Raised("TypeError", node)
        except ZeroDivisionError:
            raise Raised("ZeroDivisionError", node)
        raise PEvalUnsupported(f"operator {type(op).__name__}")

    def eval(self, e, env, fi, depth=0):
        self._tick(e)
        if isinstance(e, ast.Constant):
            return e.value
        if isinstance(e, ast.Name):
            if e.id in env:
                return env[e.id]
            if id(getattr(fi, "node", None)) in getattr(self, "_folding", ()) and e.id in self._locals_of(fi):
                # a local of a function that is being folded from its first statement, read before anything was bound to it on this path
                raise Raised("UnboundLocalError", e)
            if e.id in _TYPES:
                return _TYPES[e.id]
            r = self.prog.resolve_name_expr(fi.module, e)
            if r and r[0] == "const":
                ms = self._module_state(r[1], r[2], fi, depth)
                if ms is not None:
                    return ms
            v = self.prog.const(fi.module, e)
            if v is not UNKNOWN:
                return v
            if r and r[0] in ("class", "func", "module"):
                return r
            if r and r[0] == "external" and r[1] in _OPERATOR_FUNCS:
                return _PyFunc(r[1])
            if r and r[0] == "external" and r[1] in getattr(self, "externals", {}):
                return self.externals[r[1]]
            mv = self._module_value(r, depth)
            if mv is not None:
                return mv
            if r is None and id(getattr(fi, "node", None)) in getattr(self, "_folding", ()):
                import builtins as _b
                if not hasattr(_b, e.id) and e.id not in fi.module.consts and e.id not in fi.module.imports and e.id not in fi.module.functions and e.id not in fi.module.classes:
                    raise Raised("NameError", e)  # neither a local, nor a module-level name, nor a builtin
            return Opaque(e.id)
        if isinstance(e, ast.Attribute):
            r0 = self.prog.resolve_name_expr(fi.module, e) if isinstance(e.value, (ast.Name, ast.Attribute)) else None
            if r0 and r0[0] == "classattr" and r0[2] in r0[1].class_attrs and isinstance(r0[1].class_attrs[r0[2]], (ast.Dict, ast.List, ast.Set)):
                key = (r0[1].qname, r0[2])
                if key not in self.class_state:
                    self.class_state[key] = self.eval(r0[1].class_attrs[r0[2]], {}, fi, depth)
                return self.class_state[key]
            v = self.prog.const(fi.module, e)
            if v is not UNKNOWN:
                return v
            r = self.prog.resolve_name_expr(fi.module, e)
            if r and r[0] in ("class", "func", "module"):
                return r
            if r and r[0] == "external" and r[1] in _OPERATOR_FUNCS:
                return _PyFunc(r[1])
            if r and r[0] == "external" and r[1] in getattr(self, "externals", {}):
                return self.externals[r[1]]
            if r and r[0] == "const":
                ms = self._module_state(r[1], r[2], fi, depth)
                if ms is not None:
                    return ms
                mv = self._module_value(r, depth)
                if mv is not None:
                    return mv
                return Opaque(norm(e))
            base = self.eval(e.value, env, fi, depth)
            if isinstance(base, dict) and e.attr in base and isinstance(base.get("__obj__"), bool):
                return base[e.attr]
            if isinstance(base, dict) and isinstance(base.get("__obj__"), bool) and isinstance(base.get("__class__"), str):
                # an abstract instance of a repository class: properties are folded, class attributes are the shared class state
                ci_ = self.prog.classes.get(base["__class__"])
                m_ = self.w.lookup_method(ci_, e.attr) if ci_ is not None else None
                if m_ is not None and m_.kind == "property":
                    return self.call(m_, [base], {}, depth + 1)
                if m_ is not None:
                    return ("boundmethod", m_, base)
                if ci_ is not None and e.attr in ci_.class_attrs:
                    key = (ci_.qname, e.attr)
                    if key not in self.class_state:
                        self.class_state[key] = self.eval(ci_.class_attrs[e.attr], {}, fi, depth)
                    return self.class_state[key]
                raise Raised("AttributeError", e)
            if isinstance(base, dict) and isinstance(base.get("__obj__"), bool) and fi.cls is not None and e.attr in fi.cls.class_attrs:
                key = (fi.cls.qname, e.attr)
                if key not in self.class_state:
                    self.class_state[key] = self.eval(fi.cls.class_attrs[e.attr], {}, fi, depth)
                return self.class_state[key]
            if isinstance(base, Opaque) and base.name == "cls" and fi.cls is not None and fi.kind == "class" and e.attr in fi.cls.class_attrs:
                key = (fi.cls.qname, e.attr)  # cls.store inside a classmethod: the class attribute
                if key not in self.class_state:
                    self.class_state[key] = self.eval(fi.cls.class_attrs[e.attr], {}, fi, depth)
                return self.class_state[key]
            if isinstance(base, Opaque):
                return Opaque(f"{base.name}.{e.attr}")
            if base is not None and (type(base) is object or isinstance(base, _Sentinel)):
                raise Raised("AttributeError", e)
            if isinstance(base, tuple) and len(base) >= 2 and base[0] in ("module", "class", "func", "const", "external", "boundmethod"):
                raise PEvalUnsupported(f"attribute {norm(e)} of a {base[0]}")
            if base is None or (isinstance(base, (str, int, float, list, tuple, set, frozenset, bool)) and not hasattr(base, e.attr)):
                raise Raised("AttributeError", e)  # None.parent, "text".children: what Python does with it
            raise PEvalUnsupported(f"attribute {norm(e)}")
        if isinstance(e, ast.Subscript):
            c = self.eval(e.value, env, fi, depth)
            if isinstance(c, Opaque):
                return Opaque(f"{c.name}[]")
            if isinstance(e.slice, ast.Slice):
                lo = self.eval(e.slice.lower, env, fi, depth) if e.slice.lower is not None else None
                hi = self.eval(e.slice.upper, env, fi, depth) if e.slice.upper is not None else None
                st = self.eval(e.slice.step, env, fi, depth) if e.slice.step is not None else None
                try:
                    return c[lo:hi:st]
                except TypeError:
                    raise Raised("TypeError", e)
            k = self.eval(e.slice, env, fi, depth)
            if isinstance(k, Opaque):
                return Opaque("[]")
            try:
                return c[k]
            except IndexError:
                raise Raised("IndexError", e)
            except KeyError:
                raise Raised("KeyError", e)
            except TypeError:
                raise Raised("TypeError", e)
        if isinstance(e, ast.BoolOp):
            v = None
            for x in e.values:
                v = self.eval(x, env, fi, depth)
                t = self.truth(v, x)
                if isinstance(e.op, ast.And) and not t:
                    return v
                if isinstance(e.op, ast.Or) and t:
                    return v
            return v
        if isinstance(e, ast.UnaryOp):
            v = self.eval(e.operand, env, fi, depth)
            if isinstance(e.op, ast.Not):
                return not self.truth(v, e)
            if isinstance(v, Opaque):
                return Opaque("unary")
            if isinstance(e.op, ast.USub):
                return -v
            if isinstance(e.op, ast.UAdd):
                return +v
            raise PEvalUnsupported("unary op")
        if isinstance(e, ast.BinOp):
            return self.binop(e.op, self.eval(e.left, env, fi, depth), self.eval(e.right, env, fi, depth), e)
        if isinstance(e, ast.Compare):
            left = self.eval(e.left, env, fi, depth)
            for op, c in zip(e.ops, e.comparators):
                right = self.eval(c, env, fi, depth)
                if isinstance(left, Opaque) or isinstance(right, Opaque):
                    if isinstance(op, (ast.Is, ast.IsNot)) and (left is None or right is None):
                        ok = isinstance(op, ast.IsNot)  # an opaque object is not None
                    else:
                        raise PEvalUnsupported(f"comparison with opaque in {norm(e)}")
                else:
                    try:
                        ok = self.cmp(op, left, right)
                    except TypeError:
                        raise Raised("TypeError", e)
                if not ok:
                    return False
                left = right
            return True
        if isinstance(e, ast.IfExp):
            if self.truth(self.eval(e.test, env, fi, depth), e.test):
                return self.eval(e.body, env, fi, depth)
            return self.eval(e.orelse, env, fi, depth)
        if isinstance(e, ast.List):
            return [self.eval(x, env, fi, depth) for x in e.elts]
        if isinstance(e, ast.Tuple):
            return tuple(self.eval(x, env, fi, depth) for x in e.elts)
        if isinstance(e, ast.Dict):
            outd_ = {}
            for k, v in zip(e.keys, e.values):
                if k is None:
                    # {**a, **b}
                    m = self.eval(v, env, fi, depth)
                    if not isinstance(m, dict) or isinstance(m.get("__obj__"), bool):
                        raise PEvalUnsupported("** of something that is not a folded dict")
                    outd_.update(m)
                else:
                    outd_[self.eval(k, env, fi, depth)] = self.eval(v, env, fi, depth)
            return outd_
        if isinstance(e, ast.JoinedStr):
            parts = []
            for v in e.values:
                if isinstance(v, ast.Constant):
                    parts.append(str(v.value))
                else:
                    parts.append(str(self.eval(v.value, env, fi, depth)))
            return "".join(parts)
        if isinstance(e, ast.Call):
            return self.eval_call(e, env, fi, depth)
        if isinstance(e, (ast.Yield, ast.YieldFrom)):
            if not getattr(self, "_yields", None):
                raise PEvalUnsupported("yield outside a folded generator function")
            if isinstance(e, ast.Yield):
                self._yields[-1].append(self.eval(e.value, env, fi, depth) if e.value is not None else None)
            else:
                v = self.eval(e.value, env, fi, depth)
                if isinstance(v, Opaque) or (isinstance(v, dict) and isinstance(v.get("__obj__"), bool)):
                    raise PEvalUnsupported("yield from opaque")
                self._yields[-1].extend(list(v))
            return None
        if isinstance(e, ast.Lambda):
            return _Closure(e, env, fi)
        if isinstance(e, ast.GeneratorExp) and not any(g.is_async for g in e.generators):
            # a generator expression is lazy: the outermost iterable is evaluated now, everything else when (and if) an element is asked for
            first_it = self.eval(e.generators[0].iter, env, fi, depth)
            if isinstance(first_it, dict) and isinstance(first_it.get("__obj__"), bool) and "__iter__" in first_it:
                first_it = list(first_it["__iter__"])
            if isinstance(first_it, Opaque) or (isinstance(first_it, dict) and isinstance(first_it.get("__obj__"), bool)):
                raise PEvalUnsupported("generator over opaque")

            def lazy(i, env2, first):
                g = e.generators[i]
                it = first if i == 0 else self.eval(g.iter, env2, fi, depth)
                if isinstance(it, dict) and isinstance(it.get("__obj__"), bool) and "__iter__" in it:
                    it = list(it["__iter__"])
                if isinstance(it, Opaque) or (isinstance(it, dict) and isinstance(it.get("__obj__"), bool)):
                    raise PEvalUnsupported("generator over opaque")
                for x in it:
                    env3 = dict(env2)
                    self.assign(g.target, x, env3, fi, depth)
                    if all(self.truth(self.eval(c, env3, fi, depth), c) for c in g.ifs):
                        if i + 1 == len(e.generators):
                            yield self.eval(e.elt, env3, fi, depth)
                        else:
                            yield from lazy(i + 1, env3, None)
            return lazy(0, env, first_it)
        if isinstance(e, (ast.ListComp, ast.GeneratorExp, ast.DictComp, ast.SetComp)):
            out, outd, outs = [], {}, set()

            def gen(i, env2):
                if i == len(e.generators):
                    if isinstance(e, ast.DictComp):
                        outd[self.eval(e.key, env2, fi, depth)] = self.eval(e.value, env2, fi, depth)
                    elif isinstance(e, ast.SetComp):
                        outs.add(self.eval(e.elt, env2, fi, depth))
                    else:
                        out.append(self.eval(e.elt, env2, fi, depth))
                    return
                g = e.generators[i]
                it = self.eval(g.iter, env2, fi, depth)
                if isinstance(it, dict) and isinstance(it.get("__obj__"), bool):
                    if "__iter__" not in it:
                        raise PEvalUnsupported("comprehension over an abstract instance")
                    it = list(it["__iter__"])
                if isinstance(it, Opaque):
                    raise PEvalUnsupported("comprehension over opaque")
                for x in list(it):
                    env3 = dict(env2)
                    self.assign(g.target, x, env3, fi, depth)
                    if all(self.truth(self.eval(c, env3, fi, depth), c) for c in g.ifs):
                        gen(i + 1, env3)
            gen(0, dict(env))
            return outd if isinstance(e, ast.DictComp) else outs if isinstance(e, ast.SetComp) else out
        raise PEvalUnsupported(f"expression {type(e).__name__}: {norm(e)}")

    @staticmethod
    def cmp(op, a, b):
        def _is_obj(x):
            return isinstance(x, dict) and isinstance(x.get("__obj__"), bool)
        if isinstance(op, (ast.Eq, ast.NotEq)) and (_is_obj(a) or _is_obj(b)):
            # abstract instances of classes without __eq__: equality is identity
            return (a is b) if isinstance(op, ast.Eq) else (a is not b)
        if isinstance(op, (ast.In, ast.NotIn)) and isinstance(b, (list, tuple)) and (_is_obj(a) or any(_is_obj(x) for x in b)):
            hit = any(x is a for x in b)
            return hit if isinstance(op, ast.In) else not hit
        if isinstance(op, ast.Eq):
            return a == b
        if isinstance(op, ast.NotEq):
            return a != b
        if isinstance(op, ast.Lt):
            return a < b
        if isinstance(op, ast.LtE):
            return a <= b
        if isinstance(op, ast.Gt):
            return a > b
        if isinstance(op, ast.GtE):
            return a >= b
        if isinstance(op, ast.Is):
            return a is b
        if isinstance(op, ast.IsNot):
            return a is not b
        if isinstance(op, ast.In):
            return a in b
        if isinstance(op, ast.NotIn):
            return a not in b
        raise PEvalUnsupported("comparison operator")

    def eval_call(self, e: ast.Call, env, fi, depth):
        f = e.func
        args = [self.eval(a, env, fi, depth) for a in e.args]
        if any(k.arg is None for k in e.keywords):
            raise PEvalUnsupported("call with **mapping")
        kwargs = {k.arg: self.eval(k.value, env, fi, depth) for k in e.keywords if k.arg}
        # builtins
        if isinstance(f, ast.Name) and f.id not in env:
            n = f.id
            if kwargs and n in ("isinstance", "len", "str", "float", "int", "id"):
                raise PEvalUnsupported(f"{n} with keyword arguments")
            if n == "isinstance" and len(args) == 2:
                if isinstance(args[0], Opaque):
                    raise PEvalUnsupported("isinstance of opaque")
                t = args[1]
                ts = t if isinstance(t, tuple) else (t,)
                if not all(isinstance(x, type) for x in ts):
                    raise PEvalUnsupported(f"isinstance against {t!r}")
                return isinstance(args[0], tuple(ts))
            if n == "len" and len(args) == 1:
                if isinstance(args[0], Opaque):
                    raise PEvalUnsupported("len of opaque")
                try:
                    return len(args[0])
                except TypeError:
                    raise Raised("TypeError", e)
            if n == "str" and len(args) == 1:
                return str(args[0])
            if n in ("float", "int") and len(args) == 1:
                if isinstance(args[0], Opaque):
                    raise PEvalUnsupported("numeric conversion of opaque")
                try:
                    return float(args[0]) if n == "float" else int(args[0])
                except ValueError:
                    raise Raised("ValueError", e)
                except TypeError:
                    raise Raised("TypeError", e)
            if n in ("map", "filter") and len(args) >= 2 and not kwargs:
                if any(isinstance(a, Opaque) or (isinstance(a, dict) and isinstance(a.get("__obj__"), bool)) for a in args[1:]):
                    raise PEvalUnsupported(f"{n} over opaque")
                f0 = args[0]
                if n == "map":
                    return _PyIter(map(lambda *xs: self.call_value(f0, list(xs), {}, fi, depth, e), *args[1:]))
                if f0 is None:
                    return _PyIter(filter(None, args[1]))
                return _PyIter(filter(lambda x: self.truth(self.call_value(f0, [x], {}, fi, depth, e), e), args[1]))
            if n in ("sorted", "min", "max") and "key" in kwargs and not isinstance(kwargs["key"], Opaque) and args and not any(isinstance(a, Opaque) for a in args):
                kf = kwargs["key"]
                kw2 = {k: v for k, v in kwargs.items() if k != "key"}
                try:
                    return {"sorted": sorted, "min": min, "max": max}[n](*args, key=lambda x: self.call_value(kf, [x], {}, fi, depth, e), **kw2)
                except (TypeError, ValueError) as ex:
                    raise Raised(type(ex).__name__, e)
            if n in ("next", "iter") and args and not kwargs:
                import types as _types
                a0 = args[0]
                if isinstance(a0, Opaque) or (isinstance(a0, dict) and isinstance(a0.get("__obj__"), bool)):
                    raise PEvalUnsupported(f"{n} of opaque")
                if n == "iter" and len(args) == 1:
                    if isinstance(a0, (_types.GeneratorType, _PyIter)):
                        return a0
                    try:
                        return _PyIter(iter(a0))
                    except TypeError:
                        raise Raised("TypeError", e)
                if n == "next" and len(args) <= 2:
                    if not isinstance(a0, (_types.GeneratorType, _PyIter)):
                        raise Raised("TypeError", e)  # next() of something that is not an iterator
                    try:
                        return next(a0)
                    except StopIteration:
                        if len(args) == 2:
                            return args[1]
                        raise Raised("StopIteration", e)
                raise PEvalUnsupported(f"{n} with these arguments")
            if n == "object" and not args and not kwargs:
                return _Sentinel()
            if n == "id" and len(args) == 1 and not isinstance(args[0], Opaque):
                return id(args[0])  # identity of the abstract object: equal exactly when it is the same object
            if n in ("abs", "min", "max", "bool", "list", "tuple", "sorted", "sum", "any", "all", "range", "enumerate", "zip", "set", "type", "dict", "reversed", "frozenset",
                     "round", "divmod", "repr", "ord", "chr"):
                if any(isinstance(a, Opaque) for a in args):
                    raise PEvalUnsupported(f"{n} of opaque")
                fn = {"abs": abs, "min": min, "max": max, "bool": bool, "list": list, "tuple": tuple,
                      "sorted": sorted, "sum": sum, "any": any, "all": all, "range": lambda *a: list(range(*a)),
                      "enumerate": lambda *a, **k: list(enumerate(*a, **k)), "zip": lambda *a, **k: list(zip(*a, **k)), "set": set,
                      "type": type, "dict": dict, "reversed": lambda x: list(reversed(x)), "frozenset": frozenset, "round": round, "divmod": divmod, "repr": repr,
                      "ord": ord, "chr": chr}[n]
                if n in ("repr", "type", "bool") and args and isinstance(args[0], dict) and isinstance(args[0].get("__obj__"), bool):
                    if n == "bool":
                        return True
                    raise PEvalUnsupported(f"{n} of an abstract instance")
                if any(isinstance(v, Opaque) or callable(v) or (isinstance(v, tuple) and v and v[0] in ("func", "class", "boundmethod", "lambda")) for v in kwargs.values()) \
                        or "key" in kwargs:
                    raise PEvalUnsupported(f"{n} with a keyword argument the folder does not model")
                try:
                    return fn(*args, **kwargs)
                except (TypeError, ValueError) as ex:
                    raise Raised(type(ex).__name__, e)
        # pure standard-library text functions on folded strings (not repository code: applied as they are)
        if isinstance(f, (ast.Name, ast.Attribute)):
            r = self.prog.resolve_name_expr(fi.module, f)
            if r and r[0] == "external" and r[1] in ("xml.sax.saxutils.escape", "xml.sax.saxutils.unescape", "xml.sax.saxutils.quoteattr", "html.escape"):
                kw = {k.arg: self.eval(k.value, env, fi, depth) for k in e.keywords if k.arg}
                if any(isinstance(a, Opaque) for a in list(args) + list(kw.values())):
                    raise PEvalUnsupported(f"{r[1]} of opaque")
                import html as _html
                import xml.sax.saxutils as _su
                fn = {"xml.sax.saxutils.escape": _su.escape, "xml.sax.saxutils.unescape": _su.unescape, "xml.sax.saxutils.quoteattr": _su.quoteattr,
                      "html.escape": _html.escape}[r[1]]
                try:
                    return fn(*args, **kw)
                except (TypeError, AttributeError) as ex:
                    raise Raised(type(ex).__name__, e)
            if r and r[0] == "external" and r[1] in _OPERATOR_FUNCS:
                return self.call_value(_PyFunc(r[1]), args, kwargs, fi, depth, e)
            if r and r[0] == "external" and r[1] in ("re.search", "re.match", "re.fullmatch", "re.sub", "re.split", "re.findall", "re.compile", "re.escape"):
                import re as _re
                if any(isinstance(a, Opaque) for a in list(args) + list(kwargs.values())):
                    raise PEvalUnsupported(f"{r[1]} of opaque")
                if any(not isinstance(a, (str, int, _re.Pattern)) for a in list(args) + list(kwargs.values())):
                    if any(a is None for a in args):
                        raise Raised("TypeError", e)
                    raise PEvalUnsupported(f"{r[1]} with a callable or an object")
                try:
                    return getattr(_re, r[1].split(".")[1])(*args, **kwargs)
                except _re.error:
                    raise Raised("re.error", e)
                except TypeError:
                    raise Raised("TypeError", e)
            if r and r[0] == "external" and r[1] in ("functools.partial", "operator.methodcaller", "operator.attrgetter", "operator.itemgetter"):
                if any(isinstance(a, Opaque) for a in args) or not args:
                    raise PEvalUnsupported(f"{r[1]} of opaque")
                kind = r[1].split(".")[1]
                if kind in ("methodcaller", "attrgetter") and not all(isinstance(a, str) for a in (args[:1] if kind == "methodcaller" else args)):
                    raise Raised("TypeError", e)
                if kind == "attrgetter" and any("." in a for a in args):
                    raise PEvalUnsupported("dotted attrgetter")
                return _Partial(kind, list(args), dict(kwargs) if kind in ("partial", "methodcaller") else {})
            if r and r[0] == "external" and r[1] in ("collections.deque", "functools.reduce", "itertools.count", "itertools.chain", "itertools.chain.from_iterable",
                                                      "itertools.islice", "itertools.repeat", "itertools.starmap", "itertools.takewhile", "itertools.dropwhile",
                                                      "itertools.zip_longest", "itertools.accumulate", "itertools.filterfalse"):
                import collections as _c
                import itertools as _it
                name = r[1]
                iterated = list(args[1:2]) if name == "functools.reduce" else list(args) + list(kwargs.values())
                if any(isinstance(a, Opaque) for a in list(args) + list(kwargs.values())) or any(isinstance(a, dict) and isinstance(a.get("__obj__"), bool) for a in iterated):
                    raise PEvalUnsupported(f"{r[1]} of opaque")
                try:
                    if name == "collections.deque":
                        return _c.deque(*args, **kwargs)
                    if name == "functools.reduce":
                        if not (2 <= len(args) <= 3) or kwargs:
                            raise Raised("TypeError", e)
                        itr = iter(args[1])
                        if len(args) == 3:
                            acc = args[2]
                        else:
                            try:
                                acc = next(itr)
                            except StopIteration:
                                raise Raised("TypeError", e)
                        for x in itr:
                            acc = self.call_value(args[0], [acc, x], {}, fi, depth, e)
                        return acc
                    if name in ("itertools.starmap", "itertools.takewhile", "itertools.dropwhile", "itertools.filterfalse", "itertools.accumulate"):
                        f0 = args[0] if name != "itertools.accumulate" else (args[1] if len(args) > 1 else kwargs.get("func"))
                        if name == "itertools.accumulate" and f0 is None:
                            return _PyIter(_it.accumulate(args[0]))
                        pyf = (lambda *xs: self.call_value(f0, list(xs), {}, fi, depth, e))
                        if name == "itertools.starmap":
                            return _PyIter(_it.starmap(pyf, args[1]))
                        if name == "itertools.accumulate":
                            return _PyIter(_it.accumulate(args[0], pyf))
                        fn_ = {"itertools.takewhile": _it.takewhile, "itertools.dropwhile": _it.dropwhile, "itertools.filterfalse": _it.filterfalse}[name]
                        return _PyIter(fn_((lambda x: self.truth(pyf(x), e)) if f0 is not None else None, args[1]))
                    fn_ = {"itertools.count": _it.count, "itertools.chain": _it.chain, "itertools.chain.from_iterable": _it.chain.from_iterable, "itertools.islice": _it.islice,
                           "itertools.repeat": _it.repeat, "itertools.zip_longest": _it.zip_longest}[name]
                    return _PyIter(fn_(*args, **kwargs))
                except (TypeError, ValueError) as ex:
                    raise Raised(type(ex).__name__, e)
            if r and r[0] == "external" and r[1] in ("copy.copy", "uuid.uuid1", "uuid.uuid4", "copy.deepcopy", "json.dumps", "json.loads"):
                if r[1].startswith("uuid."):
                    self._uuid = getattr(self, "_uuid", 0) + 1
                    return _FreshId(self._uuid)
                if any(isinstance(a, Opaque) for a in args) or len(args) != 1:
                    raise PEvalUnsupported(f"{r[1]} of opaque")
                import copy as _copy
                import json as _json
                if r[1] == "copy.copy":
                    return _copy.copy(args[0])  # an abstract instance is a dict of its fields: the shallow copy shares every field value
                if _has_obj(args[0]):
                    raise PEvalUnsupported(f"{r[1]} of an object graph")
                if r[1] == "copy.deepcopy":
                    return _copy.deepcopy(args[0])
                kw = {k.arg: self.eval(k.value, env, fi, depth) for k in e.keywords if k.arg}
                try:
                    return _json.dumps(args[0], **kw) if r[1] == "json.dumps" else _json.loads(args[0], **kw)
                except (TypeError, ValueError) as ex:
                    raise Raised(type(ex).__name__, e)
        # math.isnan and friends
        if isinstance(f, ast.Attribute):
            r = self.prog.resolve_name_expr(fi.module, f)
            if r and r[0] == "external" and r[1] in ("math.isnan", "math.isinf", "math.isfinite"):
                if isinstance(args[0], Opaque):
                    raise PEvalUnsupported("math of opaque")
                return getattr(math, r[1].split(".")[1])(args[0])
            # container methods on folded values
            base = None
            try:
                base = self.eval(f.value, env, fi, depth)
            except PEvalUnsupported:
                base = None
            if isinstance(base, list) and f.attr in ("index", "remove", "count") and len(args) == 1 and \
                    (any(isinstance(x, dict) and isinstance(x.get("__obj__"), bool) for x in base) or (isinstance(args[0], dict) and isinstance(args[0].get("__obj__"), bool))):
                # abstract instances have no __eq__: membership is identity
                hits = [i for i, x in enumerate(base) if x is args[0]]
                if f.attr == "count":
                    return len(hits)
                if not hits:
                    raise Raised("ValueError", e)
                if f.attr == "index":
                    return hits[0]
                del base[hits[0]]
                return None
            if isinstance(base, list) and f.attr in ("append", "extend", "index", "count", "copy", "insert", "remove", "pop", "clear", "reverse", "sort"):
                if any(isinstance(a, Opaque) for a in args):
                    raise PEvalUnsupported(f"list.{f.attr} of opaque")
                try:
                    return getattr(base, f.attr)(*args)
                except ValueError:
                    raise Raised("ValueError", e)
                except IndexError:
                    raise Raised("IndexError", e)
                except TypeError:
                    raise Raised("TypeError", e)
            if isinstance(base, dict) and f.attr in ("get", "keys", "values", "items", "copy") and not isinstance(base.get("__obj__"), bool):
                v = getattr(base, f.attr)(*args)
                if f.attr in ("keys", "items"):
                    return _SetLikeList(v)
                return list(v) if f.attr == "values" else v
            if isinstance(base, dict) and f.attr in ("update", "pop", "setdefault", "popitem", "clear") and not isinstance(base.get("__obj__"), bool):
                try:
                    return getattr(base, f.attr)(*args)
                except KeyError:
                    raise Raised("KeyError", e)
            if base is not None and (type(base) is object or isinstance(base, _Sentinel)):
                raise Raised("AttributeError", e)  # a bare object() has no methods
            if base is None and not isinstance(f.value, ast.Constant):
                try:
                    really_none = self.eval(f.value, env, fi, depth) is None
                except PEvalUnsupported:
                    really_none = False
                if really_none:
                    raise Raised("AttributeError", e)  # None.method(...)
            import re as _re2
            if isinstance(base, (_re2.Match, _re2.Pattern)) and f.attr in ("group", "groups", "groupdict", "start", "end", "span", "search", "match", "fullmatch", "sub", "split", "findall"):
                if any(isinstance(a, Opaque) or not isinstance(a, (str, int, type(None))) for a in list(args) + list(kwargs.values())):
                    raise PEvalUnsupported(f"regular-expression method {f.attr} with an unmodelled argument")
                try:
                    return getattr(base, f.attr)(*args, **kwargs)
                except (IndexError, TypeError) as ex:
                    raise Raised(type(ex).__name__, e)
            if isinstance(base, _SetLikeList) and f.attr == "isdisjoint" and len(args) == 1 and not isinstance(args[0], Opaque):
                return base.isdisjoint(list(args[0]) if not isinstance(args[0], (set, frozenset)) else args[0])
            import collections as _c2
            if isinstance(base, _c2.deque) and f.attr in ("append", "appendleft", "pop", "popleft", "extend", "extendleft", "clear", "copy", "count", "index", "rotate", "reverse", "remove"):
                if any(isinstance(a, Opaque) for a in args):
                    raise PEvalUnsupported(f"deque.{f.attr} of opaque")
                try:
                    if f.attr in ("index", "remove", "count") and len(args) == 1:
                        hits = [i for i, x in enumerate(base) if x is args[0] or (not isinstance(x, dict) and x == args[0])]
                        if f.attr == "count":
                            return len(hits)
                        if not hits:
                            raise Raised("ValueError", e)
                        if f.attr == "index":
                            return hits[0]
                        del base[hits[0]]
                        return None
                    return getattr(base, f.attr)(*args)
                except IndexError:
                    raise Raised("IndexError", e)
                except (TypeError, ValueError) as ex:
                    raise Raised(type(ex).__name__, e)
            if isinstance(base, (set, frozenset)) and f.attr in ("add", "discard", "remove", "update", "copy", "union", "intersection", "difference", "issubset",
                                                                  "issuperset", "isdisjoint") and (isinstance(base, set) or f.attr not in ("add", "discard", "remove", "update")):
                if any(isinstance(a, Opaque) for a in args):
                    raise PEvalUnsupported(f"set.{f.attr} of opaque")
                try:
                    return getattr(base, f.attr)(*args)
                except KeyError:
                    raise Raised("KeyError", e)
                except TypeError:
                    raise Raised("TypeError", e)
            if isinstance(base, str) and f.attr in ("split", "strip", "lower", "upper", "startswith", "endswith", "replace", "join", "lstrip", "rstrip", "format",
                                                    "find", "rfind", "index", "count", "isspace", "isdigit", "isalpha", "splitlines", "partition", "rpartition",
                                                    "title", "capitalize", "encode", "zfill", "rsplit", "casefold", "isalnum", "removeprefix", "removesuffix"):
                kw = {k.arg: self.eval(k.value, env, fi, depth) for k in e.keywords if k.arg}
                if any(isinstance(a, Opaque) for a in list(args) + list(kw.values())):
                    raise PEvalUnsupported(f"str.{f.attr} of opaque")
                if f.attr == "join" and args and not isinstance(args[0], str):
                    args = [list(args[0])]
                try:
                    return getattr(base, f.attr)(*args, **kw)
                except (ValueError, TypeError, KeyError, IndexError, UnicodeError) as ex:
                    raise Raised(type(ex).__name__, e)
            if isinstance(base, Opaque) and not (isinstance(f.value, ast.Name) and f.value.id in ("self", "cls") and fi.cls is not None
                                                 and self.w.lookup_method(fi.cls, f.attr) is not None):
                if f.attr in ("debug", "info", "warning", "error"):
                    return None
                raise PEvalUnsupported(f"call on opaque {norm(f)}")
        # repository functions
        r = self.prog.resolve_name_expr(fi.module, f) if isinstance(f, (ast.Name, ast.Attribute)) else None
        target = None
        recv = []
        if r is None and (not isinstance(f, (ast.Name, ast.Attribute)) or (isinstance(f, ast.Name) and f.id in env)):
            # the callee is a value: an entry of a dispatch table, a local bound to a function / bound method / class
            try:
                fv = self.eval(f, env, fi, depth)
            except PEvalUnsupported:
                fv = None
            if isinstance(fv, (_Closure, _Partial, _PyFunc)):
                return self.call_value(fv, args, kwargs, fi, depth, e)
            if isinstance(fv, tuple) and len(fv) >= 2 and fv[0] in ("func", "class"):
                r = fv
            elif isinstance(fv, tuple) and len(fv) == 3 and fv[0] == "boundmethod":
                target = fv[1]
                recv = [fv[2]] if fv[1].kind == "method" else ([Opaque("cls")] if fv[1].kind == "class" else [])
        if r and r[0] == "func":
            target = r[1]
        elif isinstance(f, ast.Attribute) and isinstance(f.value, ast.Name) and f.value.id in ("self", "cls") and fi.cls is not None:
            m = self.w.lookup_method(fi.cls, f.attr)
            if m is not None:
                target = m
                recv = [env.get(f.value.id, Opaque(f.value.id))] if m.kind != "static" else []
        if target is None and isinstance(f, ast.Attribute):
            # a method of a repository class called on an abstract object (a dict standing for a Node / Rule): the receiver's class
            # comes from the receiver typing of the function being folded
            try:
                base_obj = self.eval(f.value, env, fi, depth)
            except PEvalUnsupported:
                base_obj = None
            if isinstance(base_obj, dict) and isinstance(base_obj.get("__obj__"), bool):
                try:
                    rt = self.w.types(fi).type_of(f.value)
                except Exception:
                    rt = None
                ci = None
                if isinstance(base_obj.get("__class__"), str):
                    ci = self.prog.classes.get(base_obj["__class__"])
                elif rt in ("Node", "OptNode"):
                    ci = self.w.nm.ci
                elif rt == "Rule":
                    ci = self.prog.classes.get("metapype.eml.rule.Rule")
                elif isinstance(rt, str) and rt.startswith(("inst:", "class:")):
                    ci = self.prog.classes.get(rt.split(":", 1)[1])
                m = self.w.lookup_method(ci, f.attr) if ci is not None else None
                if m is not None and m.kind in ("method", "static", "class"):
                    target = m
                    recv = [base_obj] if m.kind == "method" else ([Opaque("cls")] if m.kind == "class" else [])
        if target is None and r and r[0] == "class":
            # instantiation of a repository class: a fresh abstract instance run through the constructor
            ci_ = r[1]
            obj = {"__obj__": True, "__class__": ci_.qname}
            init = self.w.lookup_method(ci_, "__init__")
            if init is not None:
                self.call(init, [obj] + args, kwargs, depth + 1)
                return obj
            bases = [norm(b) for b in ci_.node.bases]
            decos = [norm(d_.func if isinstance(d_, ast.Call) else d_) for d_ in ci_.node.decorator_list]
            record = any(b.split(".")[-1] == "NamedTuple" for b in bases) or any(d_.split(".")[-1] == "dataclass" for d_ in decos)
            if record:
                # a record class: the annotated fields in order, with their defaults
                fields = [(st.target.id, st.value) for st in ci_.node.body if isinstance(st, ast.AnnAssign) and isinstance(st.target, ast.Name)]
                if len(args) > len(fields) or any(k not in dict(fields) for k in kwargs):
                    raise Raised("TypeError", e)
                for i, (fname, dflt) in enumerate(fields):
                    if i < len(args):
                        if fname in kwargs:
                            raise Raised("TypeError", e)
                        obj[fname] = args[i]
                    elif fname in kwargs:
                        obj[fname] = kwargs[fname]
                    elif dflt is not None:
                        obj[fname] = self.eval(dflt, {}, fi, depth)
                    else:
                        raise Raised("TypeError", e)
                return obj
            if bases and bases != ["object"]:
                raise PEvalUnsupported(f"instantiation of {ci_.name}, whose constructor is inherited from {', '.join(bases)}")
            if args or kwargs:
                raise Raised("TypeError", e)
            return obj
        if target is not None and target.qname in self.stubs:
            return self.stubs[target.qname]
        if target is not None:
            if target.kind in ("method", "class") and not recv:
                # Class.method(obj, ...) explicit receiver for methods; classmethods get the class
                if target.kind == "class":
                    recv = [Opaque("cls")]
            return self.call(target, recv + args, kwargs, depth + 1)
        raise PEvalUnsupported(f"call {norm(e.func)}")
