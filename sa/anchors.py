"""Structural anchors shared by several properties, each re-derived from the
AST on every run.  A vanished anchor is an AnalysisError (exit 2)."""
from __future__ import annotations

import ast
from typing import Dict, List, Optional, Set, Tuple

from .model import AnalysisError, FuncInfo, Program, norm

RULE_Q = "metapype.eml.rule.Rule"


def rule_method(prog: Program, name: str) -> FuncInfo:
    return prog.func(f"{RULE_Q}.{name}")


def content_dispatch(prog: Program):
    """The dispatch of Rule._validate_content: returns (loop, var, arms,
    fallthrough) where arms maps content-rule name -> list of statements of
    that arm and fallthrough is the final else body (or None)."""
    fi = rule_method(prog, "_validate_content")
    loop = None

    def is_cr(e):
        return (isinstance(e, ast.Subscript) and isinstance(e.slice, ast.Constant) and e.slice.value == "content_rules") or \
               (isinstance(e, ast.Attribute) and e.attr == "content_rules")
    locals_cr = {n.targets[0].id for n in ast.walk(fi.node) if isinstance(n, ast.Assign) and len(n.targets) == 1
                 and isinstance(n.targets[0], ast.Name) and is_cr(n.value)}
    for n in ast.walk(fi.node):
        if isinstance(n, ast.For) and isinstance(n.target, ast.Name):
            it = n.iter
            if isinstance(it, ast.Name) and it.id in locals_cr:
                loop = n
                break
            if isinstance(it, ast.Subscript) and isinstance(it.slice, ast.Constant) and it.slice.value == "content_rules":
                loop = n
                break
            if isinstance(it, ast.Attribute) and it.attr == "content_rules":
                loop = n
                break
    if loop is None:
        raise AnalysisError("anchor vanished: loop over content_rules in Rule._validate_content")
    var = loop.target.id
    arms: Dict[str, List[ast.stmt]] = {}
    fall = None
    # the dispatch is the if/elif chain (or a series of ifs) over `var`
    def names_of(test) -> Optional[List[str]]:
        if isinstance(test, ast.Compare) and len(test.ops) == 1:
            l, r = test.left, test.comparators[0]
            if isinstance(test.ops[0], ast.Eq):
                if isinstance(l, ast.Name) and l.id == var:
                    v = prog.const(fi.module, r)
                    return [v] if isinstance(v, str) else None
                if isinstance(r, ast.Name) and r.id == var:
                    v = prog.const(fi.module, l)
                    return [v] if isinstance(v, str) else None
            if isinstance(test.ops[0], ast.In) and isinstance(l, ast.Name) and l.id == var:
                v = prog.const(fi.module, r)
                if isinstance(v, (tuple, list, frozenset)) and all(isinstance(x, str) for x in v):
                    return list(v)
        if isinstance(test, ast.BoolOp) and isinstance(test.op, ast.Or):
            out = []
            for x in test.values:
                sub = names_of(x)
                if sub is None:
                    return None
                out.extend(sub)
            return out
        return None

    def chain(stmt: ast.If):
        nonlocal fall
        ns = names_of(stmt.test)
        cv = prog.const(fi.module, stmt.test)
        if ns is None and isinstance(cv, bool):
            # a constant test: a dead arm (False: nothing is dispatched to it) or a catch-all (True: it takes every name that
            # reaches it, i.e. it is the fall-through and what follows is dead)
            if cv:
                fall = stmt.body
                return
            if len(stmt.orelse) == 1 and isinstance(stmt.orelse[0], ast.If):
                chain(stmt.orelse[0])
            elif stmt.orelse:
                fall = stmt.orelse
            return
        if ns is None and not any(isinstance(x, ast.Name) and x.id == var for x in ast.walk(stmt.test)):
            # a test that does not look at the content-rule name ends the dispatch: what it guards is the fall-through
            # (`elif errs is None: raise ... else: errs.append(...)`, the lowered form of `case _ if errs is None:` / `case _:`)
            fall = [stmt]
            return
        if ns is None:
            raise AnalysisError(f"{fi.loc(stmt)}: dispatch test `{norm(stmt.test)}` in _validate_content is not a comparison "
                                f"of `{var}` with constant names")
        for n in ns:
            arms.setdefault(n, []).extend(stmt.body)
        if len(stmt.orelse) == 1 and isinstance(stmt.orelse[0], ast.If):
            chain(stmt.orelse[0])
        elif stmt.orelse:
            fall = stmt.orelse

    found = False
    for st in loop.body:
        if isinstance(st, ast.If):
            chain(st)
            found = True
    if not found:
        raise AnalysisError("anchor vanished: dispatch chain in Rule._validate_content")
    return fi, loop, var, arms, fall


def enum_members(prog: Program, qname: str) -> List[str]:
    ci = prog.cls(qname)
    return prog.enum_members(ci)
