"""Developer tool: run every check against every kept behaviour-preserving refactoring (refactorings/*/patch.diff),
16 scratch copies at a time; prints the refactorings on which some check is not silent."""
import json, os, shutil, subprocess, sys, tempfile
from concurrent.futures import ThreadPoolExecutor
from .check import PROPS
from .core import VERIF


def one(name):
    d = tempfile.mkdtemp(prefix="sa_ref_")
    try:
        for sub in ("src", "utils"):
            shutil.copytree(os.path.join("/repo", sub), os.path.join(d, sub), ignore=shutil.ignore_patterns("__pycache__", "*.pyc", "*.log"))
        r = subprocess.run(["git", "apply", os.path.join(VERIF, "refactorings", name, "patch.diff")], cwd=d, capture_output=True, text=True)
        if r.returncode:
            return name, {"patch": "does not apply"}
        out = {}
        for pid in PROPS:
            r = subprocess.run([sys.executable, "-m", "sa.check", pid, "--root", d, "--no-evidence"], cwd=VERIF, capture_output=True, text=True)
            if r.returncode != 0:
                out[pid] = (r.returncode, [l.strip()[:200] for l in r.stdout.splitlines() if l.startswith("  ") or l.startswith("ANALYSIS")][:2])
        return name, out
    finally:
        shutil.rmtree(d, ignore_errors=True)


def main():
    names = sorted(os.listdir(os.path.join(VERIF, "refactorings")))
    with ThreadPoolExecutor(max_workers=16) as ex:
        res = list(ex.map(one, names))
    bad = 0
    for name, out in res:
        if out:
            bad += 1
            print(name, out)
    print(f"{len(res)} refactorings, {len(res) - bad} silent on every check, {bad} not")
    return 1 if bad else 0


if __name__ == "__main__":
    sys.exit(main())
