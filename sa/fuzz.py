"""Developer tool: robustness fuzzing of the checkers.  Applies random AST-level edits (delete a statement, negate a
condition, swap if/else, change a constant, drop a call argument, wrap in try, ...) to one source file of a scratch
copy and runs all checks; reports runs in which a checker CRASHED (exit 2 with 'checker crashed') or timed out.
Verdicts (exit 0/1) are ignored: the edits are arbitrary."""
import ast, os, random, shutil, subprocess, sys, tempfile
from concurrent.futures import ThreadPoolExecutor
from .check import PROPS
from .core import VERIF

FILES = ["src/metapype/eml/rule.py", "src/metapype/eml/validate.py", "src/metapype/model/node.py", "src/metapype/model/metapype_io.py",
         "src/metapype/eml/evaluate.py", "src/metapype/eml/references.py", "src/metapype/eml/export.py", "src/metapype/model/mp_io.py", "utils/convert.py"]


class Mut(ast.NodeTransformer):
    def __init__(self, rnd, target):
        self.rnd, self.target, self.i, self.done = rnd, target, 0, None

    def tick(self):
        self.i += 1
        return self.i == self.target

    def visit_If(self, n):
        self.generic_visit(n)
        if self.tick():
            k = self.rnd.choice(["negate", "swap", "dropelse", "always"])
            self.done = "if:" + k
            if k == "negate":
                n.test = ast.UnaryOp(op=ast.Not(), operand=n.test)
            elif k == "swap" and n.orelse:
                n.body, n.orelse = n.orelse, n.body
            elif k == "dropelse":
                n.orelse = []
            else:
                n.test = ast.Constant(value=True)
        return n

    def visit_Compare(self, n):
        self.generic_visit(n)
        if self.tick():
            self.done = "cmp"
            flip = {ast.Lt: ast.LtE, ast.LtE: ast.Lt, ast.Gt: ast.GtE, ast.GtE: ast.Gt, ast.Eq: ast.NotEq, ast.NotEq: ast.Eq, ast.Is: ast.IsNot,
                    ast.IsNot: ast.Is, ast.In: ast.NotIn, ast.NotIn: ast.In}
            n.ops = [flip.get(type(o), type(o))() for o in n.ops]
        return n

    def visit_Constant(self, n):
        if self.tick() and isinstance(n.value, (int, str)) and not isinstance(n.value, bool):
            self.done = "const"
            return ast.Constant(value=(n.value + 1) if isinstance(n.value, int) else n.value + "x")
        return n

    def visit_Call(self, n):
        self.generic_visit(n)
        if self.tick() and n.args:
            self.done = "dropArg"
            n.args = n.args[:-1]
        return n

    def _stmts(self, body):
        out = []
        for s in body:
            if isinstance(s, (ast.Expr, ast.Assign, ast.AugAssign, ast.Return, ast.Raise)) and self.tick():
                k = self.rnd.choice(["delete", "dup", "try", "tolocal"])
                self.done = "stmt:" + k
                if k == "delete":
                    out.append(ast.Pass())
                    continue
                if k == "dup":
                    out.extend([s, s])
                    continue
                if k == "try":
                    out.append(ast.Try(body=[s], handlers=[ast.ExceptHandler(type=ast.Name(id="Exception", ctx=ast.Load()), name=None, body=[ast.Pass()])],
                                       orelse=[], finalbody=[]))
                    continue
                if k == "tolocal" and isinstance(s, ast.Expr):
                    out.append(ast.Assign(targets=[ast.Name(id="_tmp", ctx=ast.Store())], value=s.value))
                    continue
            out.append(s)
        return out

    def generic_visit(self, n):
        super().generic_visit(n)
        for fld in ("body", "orelse", "finalbody"):
            b = getattr(n, fld, None)
            if isinstance(b, list) and b and isinstance(b[0], ast.stmt) and not isinstance(n, ast.Module):
                setattr(n, fld, self._stmts(b) or [ast.Pass()])
        return n


def one(seed):
    rnd = random.Random(seed)
    rel = rnd.choice(FILES)
    d = tempfile.mkdtemp(prefix="sa_fuzz_")
    try:
        for sub in ("src", "utils"):
            shutil.copytree(os.path.join("/repo", sub), os.path.join(d, sub), ignore=shutil.ignore_patterns("__pycache__", "*.pyc", "*.log"))
        p = os.path.join(d, rel)
        tree = ast.parse(open(p).read())
        total = sum(1 for _ in ast.walk(tree))
        m = Mut(rnd, rnd.randint(1, max(2, total // 3)))
        tree = m.visit(tree)
        ast.fix_missing_locations(tree)
        try:
            src = ast.unparse(tree)
            compile(src, p, "exec")
        except Exception:
            return seed, rel, m.done, []
        open(p, "w").write(src)
        bad = []
        for pid in PROPS:
            try:
                r = subprocess.run([sys.executable, "-m", "sa.check", pid, "--root", d, "--no-evidence"], cwd=VERIF, capture_output=True, text=True, timeout=120)
            except subprocess.TimeoutExpired:
                bad.append((pid, "TIMEOUT"))
                continue
            if "checker crashed" in r.stdout:
                tb = [l for l in (r.stderr or "").splitlines() if l.strip()][-3:]
                bad.append((pid, [l for l in r.stdout.splitlines() if "crashed" in l][0][:200], tb))
        return seed, rel, m.done, bad
    finally:
        shutil.rmtree(d, ignore_errors=True)


def main():
    n = int(sys.argv[1]) if len(sys.argv) > 1 else 64
    base = int(sys.argv[2]) if len(sys.argv) > 2 else 0
    with ThreadPoolExecutor(max_workers=16) as ex:
        res = list(ex.map(one, range(base, base + n)))
    crashes = {}
    for seed, rel, what, bad in res:
        for b in bad:
            key = str(b[1])[:160]
            crashes.setdefault(key, []).append((seed, rel, what, b[0], b[2] if len(b) > 2 else ""))
    for k, v in crashes.items():
        print(len(v), "x", k)
        print("     e.g.", v[0])
    print(f"{n} mutants, {sum(1 for r in res if r[3])} with a crash/timeout, {len(crashes)} distinct")


if __name__ == "__main__":
    main()
