"""E6 -- output-context taint for the XML exporters.

State: may-set of (variable, source, sanitised) triples.  Sources are the
node's text-valued data (content, tail, attribute / extras / nsmap values);
``sanitised`` is None, 'text' (xml.sax.saxutils.escape) or 'attr' (quoteattr,
or escape with an entity map containing the double quote).  At every string
assembly (f-string, str.format on a constant template, + / += with markup) each
interpolated piece is checked against the context computed from the constant
text in front of it: attribute value (after `="`) or text."""
from __future__ import annotations

import ast

from .astutil import fold_local as _fold_local
import re
from typing import List, Optional, Set, Tuple

from .exc import resolve_exc_class
from .flow import Flow
from .model import FuncInfo, norm
from .types import T_NODE, T_OPT

SOURCE_FIELDS = {"_content": "content", "_tail": "tail"}
DICT_SOURCES = {"_attributes": "attribute value", "_extras": "qualified-attribute value", "_nsmap": "namespace URI"}
ENTITY = re.compile(r"^&[A-Za-z#0-9]+;$")


class TaintDomain:
    def __init__(self, ctx, fi: FuncInfo):
        self.ctx = ctx
        self.fi = fi
        self.nm = ctx.world.nm
        self.ft = ctx.world.types(fi)
        self.flow: Optional[Flow] = None
        self.sinks: List[tuple] = []  # (node, source, context, sanitised, ok)
        self.tag_names: List[tuple] = []  # (node, kind, expr text)
        self.inner_adds = set()
        for n in ast.walk(fi.node):
            if isinstance(n, ast.BinOp) and isinstance(n.op, ast.Add):
                for c in (n.left, n.right):
                    if isinstance(c, ast.BinOp) and isinstance(c.op, ast.Add):
                        self.inner_adds.add(id(c))
            if isinstance(n, ast.AugAssign) and isinstance(n.op, ast.Add) and isinstance(n.value, ast.BinOp) and isinstance(n.value.op, ast.Add):
                self.inner_adds.add(id(n.value))

    # ---- protocol
    def meet(self, a, b):
        return a | b

    def enter_function(self, fi, st, flow):
        return st

    def assume_atom(self, test, outcome, st):
        # pruning idioms: (a) `all(x not in V for x in (<entity literals>))` false  => V already holds an entity spelling (outside the quantifier)
        if isinstance(test, ast.Call) and isinstance(test.func, ast.Name) and test.func.id == "all" and test.args and isinstance(test.args[0], ast.GeneratorExp):
            g = test.args[0]
            lits = self.ctx.prog.const(self.fi.module, g.generators[0].iter)
            if isinstance(lits, (tuple, list)) and lits and all(isinstance(x, str) and ENTITY.match(x) for x in lits) \
                    and isinstance(g.elt, ast.Compare) and isinstance(g.elt.ops[0], ast.NotIn) and not outcome:
                return None
        if isinstance(test, ast.Call) and isinstance(test.func, ast.Name) and test.func.id == "any" and test.args and isinstance(test.args[0], ast.GeneratorExp):
            g = test.args[0]
            lits = self.ctx.prog.const(self.fi.module, g.generators[0].iter)
            if isinstance(lits, (tuple, list)) and lits and all(isinstance(x, str) and ENTITY.match(x) for x in lits) \
                    and isinstance(g.elt, ast.Compare) and isinstance(g.elt.ops[0], ast.In) and outcome:
                return None
        # (b) isinstance(V, str) false for a value that is the node's text
        if isinstance(test, ast.Call) and isinstance(test.func, ast.Name) and test.func.id == "isinstance" and len(test.args) == 2 \
                and isinstance(test.args[1], ast.Name) and test.args[1].id == "str" and not outcome:
            if self.taint(test.args[0], st):
                return None
        return st

    def bind_for(self, target, it, st, flow, comp):
        t = self.iter_taint(it, st)
        names = []
        if isinstance(target, ast.Name):
            names = [(target.id, "key")]
        elif isinstance(target, ast.Tuple) and len(target.elts) == 2:
            names = [(target.elts[0].id if isinstance(target.elts[0], ast.Name) else None, "key"),
                     (target.elts[1].id if isinstance(target.elts[1], ast.Name) else None, "value")]
        out = set(x for x in st if x[0] not in [n for n, _ in names])
        is_items = isinstance(it, ast.Call) and isinstance(it.func, ast.Attribute) and it.func.attr in ("items", "values")
        for (n, role) in names:
            if n is None:
                continue
            if t and ((role == "value" and is_items) or (isinstance(it, ast.Call) and isinstance(it.func, ast.Attribute) and it.func.attr == "values")):
                for (src, san) in t:
                    out.add((n, src, san))
            # keys of attribute dicts are names (outside the rule); remember which dict they index
            if role == "key" and t:
                for (src, san) in t:
                    out.add((n, "keyof:" + src, san))
        return frozenset(out)

    def bind_handler(self, hd, st, flow):
        return st

    def bind_with(self, item, st, flow):
        return st

    def expr(self, e, st, flow):
        if isinstance(e, ast.JoinedStr):
            self.check_joined(e, st)
        elif isinstance(e, ast.Call) and isinstance(e.func, ast.Attribute) and e.func.attr == "format" and isinstance(e.func.value, ast.Constant) \
                and isinstance(e.func.value.value, str):
            self.check_format(e, st)
        elif isinstance(e, ast.BinOp) and isinstance(e.op, ast.Add) and id(e) not in self.inner_adds:
            self.check_concat(e, st)
        return st

    def stmt(self, s, st, flow):
        if isinstance(s, ast.Assign) and len(s.targets) == 1 and isinstance(s.targets[0], ast.Name):
            v = s.targets[0].id
            out = set(x for x in st if x[0] != v)
            for (src, san) in self.taint(s.value, st):
                out.add((v, src, san))
            return frozenset(out)
        if isinstance(s, ast.AugAssign) and isinstance(s.target, ast.Name) and isinstance(s.op, ast.Add):
            # xml += piece : the piece is assembled into markup
            fake = ast.BinOp(left=ast.Name(id=s.target.id, ctx=ast.Load()), op=ast.Add(), right=s.value)
            ast.copy_location(fake, s)
            self.check_concat(fake, st, only_right=True)
            return st
        return st

    # ---- taint of expressions
    def iter_taint(self, it, st) -> Set[tuple]:
        if isinstance(it, ast.Call) and isinstance(it.func, ast.Attribute) and it.func.attr in ("items", "values", "keys"):
            return self.dict_taint(it.func.value, st)
        return self.dict_taint(it, st)

    def dict_taint(self, e, st) -> Set[tuple]:
        """taint of the *values* of a dict expression"""
        if isinstance(e, ast.Attribute) and self.ft.type_of(e.value) in (T_NODE, T_OPT, None):
            f = self.nm.canon(e.attr)
            if f in DICT_SOURCES:
                return {(DICT_SOURCES[f], None)}
        if isinstance(e, ast.Name):
            return {(src[5:], san) for (v, src, san) in st if v == e.id and src.startswith("dict:")}
        if isinstance(e, ast.Call):
            # a repo helper that builds a dict from its dict arguments (e.g. _nsp_unique): values come from the arguments
            out = set()
            for tg in self.ctx.world.resolve_call(self.ft, e):
                if tg.func is not None:
                    for a in e.args:
                        out |= self.dict_taint(a, st)
            return out
        return set()

    def taint(self, e, st) -> Set[tuple]:
        if isinstance(e, ast.Constant):
            return set()
        if isinstance(e, ast.Name):
            return {(src, san) for (v, src, san) in st if v == e.id and not src.startswith("keyof:")}
        if isinstance(e, ast.Attribute):
            if self.ft.type_of(e.value) in (T_NODE, T_OPT, None):
                f = self.nm.canon(e.attr)
                if f in SOURCE_FIELDS:
                    return {(SOURCE_FIELDS[f], None)}
                if f in DICT_SOURCES:
                    return {("dict:" + DICT_SOURCES[f], None)}
            return set()
        if isinstance(e, ast.Subscript):
            d = self.dict_taint(e.value, st)
            if d:
                return set(d)
            return self.taint(e.value, st)
        if isinstance(e, ast.Call):
            f = e.func
            name = None
            if isinstance(f, ast.Name):
                r = self.ctx.prog.resolve_name_expr(self.fi.module, f)
                name = r[1] if r and r[0] == "external" else f.id
            elif isinstance(f, ast.Attribute):
                r = self.ctx.prog.resolve_name_expr(self.fi.module, f)
                name = r[1] if r and r[0] == "external" else None
            if name in ("xml.sax.saxutils.escape",) and e.args:
                inner = self.taint(e.args[0], st)
                ent = e.args[1] if len(e.args) > 1 else next((k.value for k in e.keywords if k.arg == "entities"), None)
                attr_safe = False
                if ent is not None:
                    m = _fold_local(self.ctx.prog, self.fi, ent)
                    attr_safe = isinstance(m, dict) and '"' in m
                return {(src, "attr" if attr_safe else "text") for (src, _s) in inner}
            if name in ("xml.sax.saxutils.quoteattr",) and e.args:
                return {(src, "attrq") for (src, _s) in self.taint(e.args[0], st)}
            if name in ("xml.sax.saxutils.unescape", "html.unescape") and e.args:
                return {(src, None) for (src, _s) in self.taint(e.args[0], st)}
            if name == "str" and e.args:
                return self.taint(e.args[0], st)
            if isinstance(f, ast.Attribute) and f.attr in ("strip", "lstrip", "rstrip", "lower", "upper", "title", "encode", "decode", "format"):
                return self.taint(f.value, st)
            if isinstance(f, ast.Attribute) and f.attr in ("replace", "translate"):
                # a hand-written escaper: a chain of replace() calls / a translate() table neutralising the markup characters
                covered, root = self.neutralised(e)
                base = self.taint(root, st)
                if covered is not None and base:
                    if {"&", "<", ">"} <= covered and '"' in covered:
                        return {(src, "attr") for (src, _s) in base}
                    if {"&", "<", ">"} <= covered:
                        return {(src, "text" if _s is None else _s) for (src, _s) in base}
                    if covered & {"&", "<", ">", '"'}:
                        return {(src, None) for (src, _s) in base}  # partial escaping is no escaping
                if f.attr == "replace":
                    base = self.taint(f.value, st)
                    consts = all(isinstance(self.ctx.prog.const(self.fi.module, a), str) for a in e.args)
                    if consts:
                        return base  # replacement of constant literals (the documented inline-para workaround) keeps the status
                    return {(src, None) for (src, _s) in base} | {x for a in e.args for x in self.taint(a, st)}
                return {(src, None) for (src, _s) in self.taint(f.value, st)}
            if isinstance(f, ast.Attribute) and f.attr == "join" and e.args:
                return set()  # pieces are checked where they are assembled
            if isinstance(f, ast.Attribute) and f.attr == "get" and e.args:
                return self.dict_taint(f.value, st)
            # a repo helper that assembles markup from tainted arguments: analyse it with its parameters tainted like the actuals
            for tg in self.ctx.world.resolve_call(self.ft, e):
                if tg.func is not None and tg.func.qname != self.fi.qname and getattr(self, "depth", 0) < 2:
                    am = self.ctx.world.arg_map(tg, e)
                    st2 = set()
                    for pn, a in am.items():
                        for (src, san) in self.taint(a, st):
                            st2.add((pn, src, san))
                        for (src, san) in self.dict_taint(a, st) if not isinstance(a, ast.Call) or (isinstance(a.func, ast.Attribute) and a.func.attr in ("items", "values")) else ():
                            st2.add((pn, "dict:" + src, san))
                        if isinstance(a, ast.Call) and isinstance(a.func, ast.Attribute) and a.func.attr in ("items", "values"):
                            for (src, san) in self.dict_taint(a.func.value, st):
                                st2.add((pn, "dict:" + src, san))
                    has_assembly = any(isinstance(n, (ast.JoinedStr,)) or (isinstance(n, ast.BinOp) and isinstance(n.op, ast.Add)) or
                                       (isinstance(n, ast.Call) and isinstance(n.func, ast.Attribute) and n.func.attr in ("format", "join"))
                                       for n in ast.walk(tg.func.node))
                    if st2 and has_assembly:
                        sub = TaintDomain(self.ctx, tg.func)
                        sub.depth = getattr(self, "depth", 0) + 1
                        fl = Flow(tg.func, sub, self.ctx.hier, lambda x: resolve_exc_class(self.ctx.prog, tg.func.module, x) or "Exception")
                        sub.flow = fl
                        fl.quiet = self.flow.quiet if self.flow is not None else 0
                        fl.run(frozenset(st2))
                        if self.flow is None or not self.flow.quiet:
                            self.sinks.extend(sub.sinks)
                            self.tag_names.extend(sub.tag_names)
                        # what comes back: the taint of the returned expression(s) (markup pieces were checked inside)
                        out_t = set()
                        for (r_, st_r) in fl.returns:
                            if r_.value is not None:
                                out_t |= sub.taint(r_.value, st_r)
                        return out_t
            # a wrapper of one level around escape: inline its single return
            for tg in self.ctx.world.resolve_call(self.ft, e):
                if tg.func is not None:
                    rets = [n for n in ast.walk(tg.func.node) if isinstance(n, ast.Return) and n.value is not None]
                    if len(rets) == 1 and e.args:
                        sub = TaintDomain(self.ctx, tg.func)
                        am = self.ctx.world.arg_map(tg, e)
                        st2 = set()
                        for pn, a in am.items():
                            for (src, san) in self.taint(a, st):
                                st2.add((pn, src, san))
                        return sub.taint(rets[0].value, frozenset(st2))
            out = set()
            for a in e.args:
                out |= self.taint(a, st)
            if isinstance(f, ast.Attribute):
                out |= {(src, None) for (src, _s) in self.taint(f.value, st)}  # an unknown method of a tainted value returns tainted text
            return out
        if isinstance(e, ast.IfExp):
            return self.taint(e.body, st) | self.taint(e.orelse, st)
        if isinstance(e, (ast.JoinedStr, ast.BinOp, ast.ListComp, ast.GeneratorExp)):
            return set()  # assembled markup: pieces were checked at assembly
        if isinstance(e, ast.FormattedValue):
            return self.taint(e.value, st)
        return set()

    def neutralised(self, e):
        """(set of characters a replace-chain / translate call turns into entity references, innermost receiver)"""
        covered = set()
        cur = e
        ok = False
        while isinstance(cur, ast.Call) and isinstance(cur.func, ast.Attribute) and cur.func.attr in ("replace", "translate"):
            if cur.func.attr == "replace" and len(cur.args) >= 2:
                a = self.ctx.prog.const(self.fi.module, cur.args[0])
                b = self.ctx.prog.const(self.fi.module, cur.args[1])
                if isinstance(a, str) and isinstance(b, str) and len(a) == 1 and ENTITY.match(b):
                    covered.add(a)
                    ok = True
            elif cur.func.attr == "translate" and cur.args:
                t = self.ctx.prog.const(self.fi.module, cur.args[0])
                if t is None or not isinstance(t, dict):
                    # str.maketrans({...}) bound at module level
                    a0 = cur.args[0]
                    r = self.ctx.prog.resolve_name_expr(self.fi.module, a0) if isinstance(a0, (ast.Name, ast.Attribute)) else None
                    call = r[1].consts.get(r[2]) if r and r[0] == "const" else a0
                    if isinstance(call, ast.Call) and isinstance(call.func, ast.Attribute) and call.func.attr == "maketrans" and call.args:
                        t = self.ctx.prog.const(r[1] if r and r[0] == "const" else self.fi.module, call.args[0])
                if isinstance(t, dict):
                    for k, v in t.items():
                        ch = chr(k) if isinstance(k, int) else k
                        if isinstance(ch, str) and len(ch) == 1 and isinstance(v, str) and ENTITY.match(v):
                            covered.add(ch)
                            ok = True
            cur = cur.func.value
        return (covered if ok else None), cur

    # ---- assembly checks
    def _record(self, node, piece, context, st):
        for (src, san) in self.taint(piece, st):
            if src.startswith("dict:"):
                continue
            ok = (context == "text" and san in ("text", "attr")) or (context == "attr" and san in ("attr",)) or \
                 (context == "bare" and san == "attrq")
            if not self.flow.quiet:
                self.sinks.append((node, piece, src, context, san, ok))

    def check_joined(self, e: ast.JoinedStr, st):
        before = ""
        for i, v in enumerate(e.values):
            if isinstance(v, ast.Constant):
                before = str(v.value)
                continue
            if isinstance(v, ast.FormattedValue):
                after = ""
                if i + 1 < len(e.values) and isinstance(e.values[i + 1], ast.Constant):
                    after = str(e.values[i + 1].value)
                ctxt = "attr" if before.endswith('="') or before.endswith("='") else "text"
                if before.endswith("=") and not after.startswith('"'):
                    ctxt = "bare"
                if (before.endswith("<") or before.endswith("</")) and not self.flow.quiet:
                    self.tag_names.append((e, "close" if before.endswith("</") else "open", norm(v.value)))
                self._record(e, v.value, ctxt, st)
                before = ""

    def check_format(self, e: ast.Call, st):
        tmpl = e.func.value.value
        for m in re.finditer(r"\{(\d*)\}", tmpl):
            idx = int(m.group(1)) if m.group(1) else None
            pre = tmpl[: m.start()]
            ctxt = "attr" if pre.endswith('="') or pre.endswith("='") else "text"
            if idx is not None and idx < len(e.args):
                self._record(e, e.args[idx], ctxt, st)

    def check_concat(self, e: ast.BinOp, st, only_right=False):
        # flatten a + b + c
        parts = []

        def flat(x):
            if isinstance(x, ast.BinOp) and isinstance(x.op, ast.Add):
                flat(x.left)
                flat(x.right)
            else:
                parts.append(x)
        flat(e)
        before = ""
        for i, p in enumerate(parts):
            c = self.ctx.prog.const(self.fi.module, p) if isinstance(p, (ast.Constant,)) else None
            if isinstance(c, str):
                before = c
                continue
            if only_right and i == 0:
                before = ""
                continue
            ctxt = "attr" if before.endswith('="') or before.endswith("='") else "text"
            if (before.endswith("<") or before.endswith("</")) and not self.flow.quiet:
                self.tag_names.append((e, "close" if before.endswith("</") else "open", norm(p)))
            self._record(e, p, ctxt, st)
            before = ""


def run_taint(ctx, fi: FuncInfo) -> TaintDomain:
    dom = TaintDomain(ctx, fi)
    flow = Flow(fi, dom, ctx.hier, lambda e: resolve_exc_class(ctx.prog, fi.module, e) or "Exception")
    dom.flow = flow
    flow.run(frozenset())
    return dom
