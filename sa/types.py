"""E1 -- the derived model of ``Node``, flow-insensitive local typing and call
resolution.  No type checker is installed in this sandbox, so receiver types
come from this small repo-specific inference; the resolution rate is reported
as evidence."""
from __future__ import annotations

import ast
import builtins
from dataclasses import dataclass, field
from typing import Dict, List, Optional, Set, Tuple

from .model import AnalysisError, ClassInfo, FuncInfo, ModuleInfo, Program, norm

NODE_Q = "metapype.model.node.Node"
RULE_Q = "metapype.eml.rule.Rule"

# type lattice: None = no information yet (bottom), "any" = top
T_NODE, T_OPT, T_NLIST, T_NDICT, T_RULE = "Node", "OptNode", "NodeList", "NodeDict", "Rule"
T_STR, T_OPTSTR, T_DICT, T_LIST, T_INT, T_BOOL, T_ANY, T_NONE = (
    "str", "optstr", "dict", "list", "int", "bool", "any", "none")
T_OPTINT, T_OPTANY = "optint", "optany"
NULLABLE_TYPES = {"OptNode", "optstr", "optint", "optany", "none"}
T_ELEM = "xmlelem"  # lxml / ElementTree element (duck-inferred)
T_SPEC = "spec"


def tjoin(a, b):
    if a is None:
        return b
    if b is None:
        return a
    if a == b:
        return a
    s = {a, b}
    if s <= {T_NODE, T_OPT, T_NONE}:
        return T_OPT
    if s <= {T_STR, T_OPTSTR, T_NONE}:
        return T_OPTSTR
    if s == {T_LIST, T_NLIST}:
        return T_NLIST
    if s == {T_DICT, T_NDICT}:
        return T_NDICT
    if s <= {T_INT, T_OPTINT, T_NONE}:
        return T_OPTINT
    if T_SPEC in s and s <= {T_SPEC, T_LIST, T_DICT, T_ANY}:
        return T_SPEC
    if T_NONE in s or T_OPTANY in s:
        return T_OPTANY
    return T_ANY


class NodeModel:
    """Facts about class Node, derived from its AST on every run."""

    def __init__(self, prog: Program):
        self.prog = prog
        self.ci: ClassInfo = prog.cls(NODE_Q)
        init = self.ci.methods.get("__init__")
        if init is None:
            raise AnalysisError("anchor vanished: Node.__init__")
        self.fields: List[str] = []
        self.init_values: Dict[str, ast.expr] = {}
        for st in ast.walk(init.node):
            if isinstance(st, ast.Assign):
                for t in st.targets:
                    if isinstance(t, ast.Attribute) and isinstance(t.value, ast.Name) and t.value.id == "self":
                        if t.attr not in self.fields:
                            self.fields.append(t.attr)
                        self.init_values[t.attr] = st.value
        if not self.fields:
            raise AnalysisError("anchor vanished: Node.__init__ assigns no fields")
        self.containers: Dict[str, str] = {}  # field -> 'dict' | 'list'
        for f, v in self.init_values.items():
            if isinstance(v, ast.Dict) or (isinstance(v, ast.Call) and isinstance(v.func, ast.Name) and v.func.id == "dict"):
                self.containers[f] = "dict"
            elif isinstance(v, ast.List) or (isinstance(v, ast.Call) and isinstance(v.func, ast.Name) and v.func.id == "list"):
                self.containers[f] = "list"
        # property <-> field
        self.prop_field: Dict[str, str] = {}
        self.field_prop: Dict[str, str] = {}
        self.prop_has_setter: Set[str] = set()
        for name, fi in self.ci.methods.items():
            if fi.kind != "property":
                continue
            body = [s for s in fi.node.body if not (isinstance(s, ast.Expr) and isinstance(s.value, ast.Constant))]
            if len(body) == 1 and isinstance(body[0], ast.Return):
                v = body[0].value
                if isinstance(v, ast.Attribute) and isinstance(v.value, ast.Name) and v.value.id == "self" and v.attr in self.fields:
                    self.prop_field[name] = v.attr
                    self.field_prop[v.attr] = name
        self.setter_field: Dict[str, str] = {}
        for name, fi in self.ci.setters.items():
            for st in ast.walk(fi.node):
                if isinstance(st, ast.Assign):
                    for t in st.targets:
                        if isinstance(t, ast.Attribute) and isinstance(t.value, ast.Name) and t.value.id == "self":
                            self.setter_field[name] = t.attr
            self.prop_has_setter.add(name)
        # nullable fields: some assignment in Node may store None
        self.nullable: Set[str] = set()
        for fi in list(self.ci.methods.values()) + list(self.ci.setters.values()):
            for st in ast.walk(fi.node):
                if isinstance(st, ast.Assign):
                    for t in st.targets:
                        if isinstance(t, ast.Attribute) and isinstance(t.value, ast.Name) and t.value.id == "self" and t.attr in self.fields:
                            if self._may_be_none(fi, st.value):
                                self.nullable.add(t.attr)
        # a setter that stores its parameter unchanged makes a field nullable iff the field starts nullable
        self.registry = None
        for k, v in self.ci.class_attrs.items():
            if isinstance(v, ast.Dict) and not v.keys:
                self.registry = k
        self.api: Set[str] = set(self.ci.methods) | set(self.ci.setters) | set(self.fields)

    def _may_be_none(self, fi: FuncInfo, v: ast.expr) -> bool:
        if isinstance(v, ast.Constant):
            return v.value is None
        if isinstance(v, ast.IfExp):
            t = v.test
            if (isinstance(t, ast.Compare) and len(t.ops) == 1 and isinstance(t.left, ast.Name)
                    and isinstance(t.comparators[0], ast.Constant) and t.comparators[0].value is None):
                # ``A if p is None else p`` / ``p if p is not None else A``
                if isinstance(t.ops[0], ast.Is):
                    other, same = v.body, v.orelse
                elif isinstance(t.ops[0], ast.IsNot):
                    other, same = v.orelse, v.body
                else:
                    other = same = None
                if same is not None and isinstance(same, ast.Name) and same.id == t.left.id:
                    return self._may_be_none(fi, other)
            return self._may_be_none(fi, v.body) or self._may_be_none(fi, v.orelse)
        if isinstance(v, ast.Name) and v.id in fi.params:
            if fi.kind == "setter":
                return False  # decided by the initial value
            d = fi.default_of(v.id)
            return isinstance(d, ast.Constant) and d.value is None
        return False

    def canon(self, attr: str) -> Optional[str]:
        """field name for an attribute that denotes Node state (field or property)"""
        if attr in self.fields:
            return attr
        if attr in self.prop_field:
            return self.prop_field[attr]
        if attr in self.setter_field:
            return self.setter_field[attr]
        return None

    def field_type(self, f: str):
        if f in self.containers:
            if self.containers[f] == "list":
                return T_NLIST
            return T_DICT
        if f == "_parent":
            return T_OPT
        if f in self.nullable:
            return T_OPTSTR
        return T_STR


LIST_METHODS = {"append", "insert", "remove", "pop", "clear", "extend", "sort", "reverse", "index", "count", "copy"}
DICT_METHODS = {"get", "items", "keys", "values", "pop", "popitem", "clear", "update", "setdefault", "copy"}
STR_METHODS = {"strip", "split", "join", "replace", "format", "encode", "lstrip", "rstrip", "find", "startswith",
               "endswith", "lower", "upper", "isspace", "decode", "splitlines", "title", "isdigit"}
MUTATING_METHODS = {"append", "insert", "remove", "pop", "clear", "extend", "sort", "reverse", "update",
                    "popitem", "setdefault", "__setitem__", "__delitem__", "add", "discard"}


@dataclass
class Target:
    kind: str  # 'func' | 'ext' | 'builtin' | 'method' | 'unknown' | 'class'
    func: Optional[FuncInfo] = None
    name: str = ""
    recv_type: Optional[str] = None
    bound_recv: Optional[ast.expr] = None  # receiver expression bound to the callee's first parameter

    def __repr__(self):
        if self.func is not None:
            return f"<{self.kind} {self.func.qname}>"
        return f"<{self.kind} {self.name}>"


class FuncTypes:
    """flow-insensitive local types for one function"""

    def __init__(self, world: "World", fi: FuncInfo):
        self.w = world
        self.fi = fi
        self.env: Dict[str, Optional[str]] = {}
        self.attrs_used: Dict[str, Set[str]] = {}
        self.tuple_elems: Dict[str, list] = {}
        self._infer()

    def assigned_names(self):
        if not hasattr(self, "_assigned"):
            self._assigned = set()
            for a in ast.walk(self.fi.node):
                if isinstance(a, ast.Assign):
                    for t in a.targets:
                        if isinstance(t, ast.Name):
                            self._assigned.add(t.id)
        return self._assigned

    def _ann_type(self, ann, has_none_default=False):
        t = None
        if ann is None:
            return None
        txt = ann.value if isinstance(ann, ast.Constant) and isinstance(ann.value, str) else norm(ann)
        txt = txt.replace(" ", "")
        if txt in ("Node", "node.Node", "'Node'"):
            t = T_NODE
        elif txt in ("Optional[Node]", "Node|None", "Optional['Node']"):
            t = T_OPT
        elif txt == "str":
            t = T_STR
        elif txt in ("int",):
            t = T_INT
        elif txt == "bool":
            t = T_BOOL
        elif txt in ("list", "List"):
            t = T_LIST
        elif txt in ("dict", "Dict"):
            t = T_DICT
        elif txt == "tuple":
            t = "tuple"
        if has_none_default and t == T_NODE:
            t = T_OPT
        if has_none_default and t == T_STR:
            t = T_OPTSTR
        return t

    def _infer(self):
        fi = self.fi
        env = self.env
        for n in ast.walk(fi.node):
            if isinstance(n, ast.Attribute) and isinstance(n.value, ast.Name):
                self.attrs_used.setdefault(n.value.id, set()).add(n.attr)
        params = fi.params
        for i, p in enumerate(params):
            t = None
            if i == 0 and fi.bound and fi.cls is not None:
                if fi.kind == "class":
                    t = "class:" + fi.cls.qname
                elif fi.cls.qname == NODE_Q:
                    t = T_NODE
                elif fi.cls.qname == RULE_Q:
                    t = T_RULE
                else:
                    t = "inst:" + fi.cls.qname
            else:
                d = fi.default_of(p)
                none_default = isinstance(d, ast.Constant) and d.value is None
                t = self._ann_type(fi.annotation_of(p), none_default)
                if t is None and d is not None and not none_default:
                    if isinstance(d, ast.Constant):
                        t = {bool: T_BOOL, int: T_INT, str: T_STR}.get(type(d.value))
                if t is None:
                    t = self._duck(p)
                    if t == T_NODE and none_default:
                        t = T_OPT
                pt = getattr(self.w, "_pt", {}).get((fi.qname, p))
                if pt == T_SPEC and t in (None, T_LIST, T_DICT, T_ANY):
                    t = T_SPEC
            env[p] = t
        # iterate assignments to a fixpoint; names that stay untyped get the duck type
        bound_names = set()
        for _ in range(12):
            changed = False
            for n in ast.walk(fi.node):
                for (name, t) in self._bindings(n):
                    bound_names.add(name)
                    if t is None:
                        continue
                    new = tjoin(env.get(name), t)
                    if new != env.get(name):
                        env[name] = new
                        changed = True
            if not changed:
                for name in sorted(bound_names):
                    if env.get(name) is None and name not in params:
                        t = self._duck(name)
                        if t:
                            env[name] = t
                            changed = True
            if not changed:
                break

    def _duck(self, name: str):
        used = self.attrs_used.get(name, set())
        if not used:
            return None
        nm = self.w.nm
        if {"tag", "attrib", "text"} & used:
            return T_ELEM
        specific = used - LIST_METHODS - DICT_METHODS - STR_METHODS
        if specific and specific <= nm.api | set(nm.prop_field):
            return T_NODE
        return None

    def _bindings(self, n):
        out = []
        if isinstance(n, ast.Assign):
            t = self.type_of(n.value)
            for tg in n.targets:
                out.extend(self._bind_target(tg, t, n.value))
        elif isinstance(n, ast.AnnAssign) and n.value is not None:
            out.extend(self._bind_target(n.target, self.type_of(n.value), n.value))
        elif isinstance(n, (ast.For, ast.comprehension)):
            it = n.iter
            out.extend(self._bind_iter(n.target, it))
        elif isinstance(n, ast.NamedExpr):
            out.extend(self._bind_target(n.target, self.type_of(n.value), n.value))
        elif isinstance(n, ast.Call):
            # out-parameters and container fills
            f = n.func
            if isinstance(f, ast.Attribute):
                if f.attr in ("append", "insert", "add") and isinstance(f.value, ast.Name) and n.args and isinstance(n.args[-1], ast.Tuple):
                    ts = [self.type_of(x) for x in n.args[-1].elts]
                    old = self.tuple_elems.get(f.value.id)
                    if old is None or len(old) != len(ts):
                        self.tuple_elems[f.value.id] = ts
                    else:
                        self.tuple_elems[f.value.id] = [tjoin(a, b) for a, b in zip(old, ts)]
                if f.attr in ("append", "insert", "add") and isinstance(f.value, ast.Name) and n.args:
                    et = self.type_of(n.args[-1])
                    if et in (T_NODE,):
                        out.append((f.value.id, T_NLIST))
                    else:
                        out.append((f.value.id, T_LIST))
                if f.attr == "extend" and isinstance(f.value, ast.Name) and n.args:
                    if self.type_of(n.args[0]) == T_NLIST:
                        out.append((f.value.id, T_NLIST))
                for tgt in self.w.resolve_call(self, n):
                    if tgt.func is not None:
                        fills = self.w.fills_nodes(tgt.func)
                        cps = tgt.func.call_params if tgt.bound_recv is not None or tgt.func.kind in ("static", "function") else tgt.func.call_params
                        for j, a in enumerate(n.args):
                            if j < len(cps) and cps[j] in fills and isinstance(a, ast.Name):
                                out.append((a.id, T_NLIST))
            elif isinstance(f, ast.Name):
                for tgt in self.w.resolve_call(self, n):
                    if tgt.func is not None:
                        fills = self.w.fills_nodes(tgt.func)
                        cps = tgt.func.pos_params
                        for j, a in enumerate(n.args):
                            if j < len(cps) and cps[j] in fills and isinstance(a, ast.Name):
                                out.append((a.id, T_NLIST))
        elif isinstance(n, ast.With):
            pass
        elif isinstance(n, ast.ExceptHandler) and n.name:
            out.append((n.name, "exc"))
        return out

    def _bind_target(self, tg, t, value):
        out = []
        if isinstance(tg, ast.Name):
            out.append((tg.id, t))
        elif isinstance(tg, (ast.Tuple, ast.List)):
            if isinstance(value, (ast.Tuple, ast.List)) and len(value.elts) == len(tg.elts):
                for a, b in zip(tg.elts, value.elts):
                    out.extend(self._bind_target(a, self.type_of(b), b))
            else:
                for a in tg.elts:
                    out.extend(self._bind_target(a, None, value))
        elif isinstance(tg, ast.Subscript) and isinstance(tg.value, ast.Name):
            if t == T_NODE:
                cur = self.env.get(tg.value.id)
                if cur in (T_DICT, T_NDICT, None):
                    out.append((tg.value.id, T_NDICT))
        return out

    def _bind_iter(self, target, it):
        out = []
        t = self.type_of(it)
        if isinstance(target, ast.Name):
            if t == T_NLIST:
                out.append((target.id, T_NODE))
            elif t in (T_DICT, T_NDICT, T_STR):
                out.append((target.id, T_STR))
            elif t == T_ELEM:
                out.append((target.id, T_ELEM))
            elif t == T_SPEC:
                out.append((target.id, T_SPEC))
            elif isinstance(it, ast.Call) and isinstance(it.func, ast.Attribute) and it.func.attr in ("values", "keys") and not it.args \
                    and self.type_of(it.func.value) == T_SPEC:
                out.append((target.id, T_SPEC if it.func.attr == "values" else T_STR))
        elif isinstance(target, ast.Tuple) and isinstance(it, ast.Name) and it.id in getattr(self, "tuple_elems", {}):
            ts = self.tuple_elems[it.id]
            if len(ts) == len(target.elts):
                for a, tt in zip(target.elts, ts):
                    if isinstance(a, ast.Name) and tt is not None:
                        out.append((a.id, tt))
        elif isinstance(target, ast.Tuple) and isinstance(it, ast.Call):
            f = it.func
            if isinstance(f, ast.Name) and f.id == "enumerate" and it.args and len(target.elts) == 2:
                inner = self.type_of(it.args[0])
                if isinstance(target.elts[0], ast.Name):
                    out.append((target.elts[0].id, T_INT))
                if inner == T_NLIST and isinstance(target.elts[1], ast.Name):
                    out.append((target.elts[1].id, T_NODE))
            elif isinstance(f, ast.Attribute) and f.attr == "items" and len(target.elts) == 2:
                inner = self.type_of(f.value)
                if isinstance(target.elts[0], ast.Name):
                    out.append((target.elts[0].id, T_STR))
                if isinstance(target.elts[1], ast.Name):
                    out.append((target.elts[1].id, T_NODE if inner == T_NDICT else T_STR if inner == T_DICT else T_SPEC if inner == T_SPEC else None))
            elif isinstance(f, ast.Name) and f.id == "zip" and len(target.elts) == len(it.args):
                for a, b in zip(target.elts, it.args):
                    if isinstance(a, ast.Name) and self.type_of(b) == T_NLIST:
                        out.append((a.id, T_NODE))
        return out

    # ---------------------------------------------------------------- type_of
    def type_of(self, e: ast.expr):
        w = self.w
        nm = w.nm
        if e is None:
            return None
        if isinstance(e, ast.Constant):
            if e.value is None:
                return T_NONE
            return {bool: T_BOOL, int: T_INT, str: T_STR, float: "float"}.get(type(e.value), T_ANY)
        if isinstance(e, ast.Name):
            if e.id in self.env:
                return self.env[e.id]
            r = w.prog.resolve_name_expr(self.fi.module, e)
            if r and r[0] == "class":
                return "class:" + r[1].qname
            if r and r[0] == "module":
                return "module:" + r[1].name
            if r and r[0] == "external":
                return "ext:" + r[1]
            if r and r[0] == "const":
                return w.const_type(r[1], r[2])
            return None
        if isinstance(e, ast.Attribute):
            bt = self.type_of(e.value)
            if bt in (T_NODE, T_OPT):
                f = nm.canon(e.attr)
                if f is not None:
                    return nm.field_type(f)
                m = nm.ci.methods.get(e.attr)
                if m is not None and m.kind == "property":
                    return w.return_type(m)
                return None
            if bt == T_RULE:
                return w.rule_field_type(e.attr)
            if bt is not None and bt.startswith("class:"):
                ci = w.prog.classes.get(bt[6:])
                if ci is not None and ci.qname == NODE_Q and e.attr == nm.registry:
                    return T_NDICT
                return None
            if bt is not None and bt.startswith("module:"):
                r = w.prog.resolve_name_expr(self.fi.module, e)
                if r and r[0] == "const":
                    return w.const_type(r[1], r[2])
                if r and r[0] == "class":
                    return "class:" + r[1].qname
                return None
            if bt == T_ELEM:
                if e.attr in ("text", "tail", "prefix"):
                    return T_OPTSTR
                if e.attr == "tag":
                    return T_STR
                if e.attr in ("attrib", "nsmap"):
                    return T_DICT
            return None
        if isinstance(e, ast.Subscript):
            bt = self.type_of(e.value)
            if bt == T_NLIST:
                return T_NLIST if isinstance(e.slice, ast.Slice) else T_NODE
            if bt == T_NDICT:
                return T_NODE
            if bt == T_STR:
                return T_STR
            if bt == T_DICT:
                return T_STR if False else None
            if bt == T_SPEC:
                if isinstance(e.slice, ast.UnaryOp) and isinstance(e.slice.op, ast.USub) and isinstance(e.slice.operand, ast.Constant):
                    if e.slice.operand.value == 1:
                        return T_OPTINT
                    if e.slice.operand.value == 2:
                        return T_INT
                return T_SPEC
            return None
        if isinstance(e, ast.IfExp):
            return tjoin(self.type_of(e.body), self.type_of(e.orelse))
        if isinstance(e, ast.BoolOp):
            t = None
            for v in e.values:
                t = tjoin(t, self.type_of(v))
            return t
        if isinstance(e, (ast.Compare,)):
            return T_BOOL
        if isinstance(e, ast.UnaryOp):
            return T_BOOL if isinstance(e.op, ast.Not) else self.type_of(e.operand)
        if isinstance(e, ast.JoinedStr):
            return T_STR
        if isinstance(e, ast.BinOp):
            a, b = self.type_of(e.left), self.type_of(e.right)
            if a == T_STR or b == T_STR:
                return T_STR
            if a == T_INT and b == T_INT:
                return T_INT
            if a in (T_NLIST,) or b in (T_NLIST,):
                return T_NLIST
            return tjoin(a, b) if a == b else None
        if isinstance(e, ast.Dict):
            if e.keys and all(k is None for k in e.keys):
                t = None
                for v in e.values:
                    t = tjoin(t, self.type_of(v))
                return t
            if e.values and all(self.type_of(v) == T_NODE for v in e.values):
                return T_NDICT
            return T_DICT
        if isinstance(e, (ast.List, ast.ListComp)):
            if isinstance(e, ast.List):
                if e.elts and all(self.type_of(x) == T_NODE for x in e.elts):
                    return T_NLIST
                return T_LIST
            # comprehension: element type with generator bindings (already in env by walk)
            if self.type_of(e.elt) == T_NODE:
                return T_NLIST
            return T_LIST
        if isinstance(e, ast.Tuple):
            return "tuple"
        if isinstance(e, ast.GeneratorExp):
            return "gen"
        if isinstance(e, ast.DictComp):
            return T_NDICT if self.type_of(e.value) == T_NODE else T_DICT
        if isinstance(e, ast.Call):
            return self._call_type(e)
        return None

    def _call_type(self, e: ast.Call):
        w = self.w
        f = e.func
        if isinstance(f, ast.Name):
            if f.id in ("str", "repr", "format"):
                return T_STR
            if f.id in ("len", "int", "id", "hash"):
                return T_INT
            if f.id in ("bool", "isinstance", "any", "all", "callable", "hasattr"):
                return T_BOOL
            if f.id == "float":
                return "float"
            if f.id in ("list", "sorted", "reversed", "tuple"):
                if e.args and self.type_of(e.args[0]) == T_NLIST:
                    return T_NLIST
                return T_LIST
            if f.id == "dict":
                if e.args and self.type_of(e.args[0]) == T_NDICT:
                    return T_NDICT
                return T_DICT
            if f.id in ("type",):
                return "type"
        if isinstance(f, ast.Attribute):
            bt = self.type_of(f.value)
            if bt == T_NLIST:
                if f.attr == "copy":
                    return T_NLIST
                if f.attr == "pop":
                    return T_NODE
                if f.attr in ("index", "count"):
                    return T_INT
            if bt == T_NDICT:
                if f.attr == "get":
                    return T_OPT
                if f.attr == "copy":
                    return T_NDICT
                if f.attr == "pop":
                    return T_NODE
            if bt in (T_STR, T_OPTSTR) and f.attr in STR_METHODS:
                if f.attr in ("split", "splitlines"):
                    return T_LIST
                if f.attr in ("find",):
                    return T_INT
                if f.attr in ("startswith", "endswith", "isspace", "isdigit"):
                    return T_BOOL
                if f.attr == "encode":
                    return "bytes"
                return T_STR
            if bt is not None and bt.startswith("ext:copy") or (isinstance(f.value, ast.Name) and f.value.id in ("copy", "_copy") and bt is not None and bt.startswith("ext:")):
                if f.attr in ("copy", "deepcopy") and e.args:
                    return self.type_of(e.args[0])
        t = None
        tgts = w.resolve_call(self, e)
        for tg in tgts:
            if tg.kind == "class" and tg.func is not None and tg.func.cls is not None:
                q = tg.func.cls.qname
                t = tjoin(t, T_NODE if q == NODE_Q else T_RULE if q == RULE_Q else "inst:" + q)
            elif tg.kind == "class":
                t = tjoin(t, "inst:" + tg.name)
            elif tg.func is not None:
                t = tjoin(t, w.return_type(tg.func))
            elif tg.kind == "ext" and tg.name in ("copy.copy", "copy.deepcopy") and e.args:
                t = tjoin(t, self.type_of(e.args[0]))
            elif tg.kind == "ext":
                t = tjoin(t, "ext:" + tg.name + "()")
        return t


class World:
    """program + Node model + per-function types + call resolution"""

    def __init__(self, prog: Program):
        self.prog = prog
        self.nm = NodeModel(prog)
        self._ft: Dict[str, FuncTypes] = {}
        self._ret: Dict[str, Optional[str]] = {}
        self._ret_busy: Set[str] = set()
        self._fills: Dict[str, Set[str]] = {}
        self._fills_busy: Set[str] = set()
        self.call_stats = {"resolved": 0, "external": 0, "builtin": 0, "container_method": 0, "unresolved": 0}
        self.unresolved_sites: List[str] = []
        self._unique_node_methods = None

    def types(self, fi: FuncInfo) -> FuncTypes:
        if fi.qname not in self._ft:
            self._ft[fi.qname] = None  # recursion guard
            self._ft[fi.qname] = FuncTypes(self, fi)
        ft = self._ft[fi.qname]
        if ft is None:
            # re-entrant request while inferring: minimal env
            ft = FuncTypes.__new__(FuncTypes)
            ft.w = self
            ft.fi = fi
            ft.env = {}
            ft.attrs_used = {}
            ft.partial = True
        return ft

    def const_type(self, mi: ModuleInfo, name: str):
        v = self.prog.const(mi, mi.consts[name]) if mi.const_multi.get(name) == 1 else None
        if isinstance(v, str):
            return T_STR
        if isinstance(v, dict):
            return T_DICT
        e = mi.consts.get(name)
        if isinstance(e, ast.Call):
            r0 = self.prog.resolve_name_expr(mi, e.func)
            if r0 and r0[0] == "func" and self.is_json_loader(r0[1]):
                return T_SPEC
        if isinstance(e, ast.Call):
            def chain(c):
                """ext:<dotted name>() for a (chain of) call(s) on an external name: pkg.Cls().meth(...).meth2(...)"""
                if not isinstance(c, ast.Call):
                    return None
                f_ = c.func
                if isinstance(f_, (ast.Name, ast.Attribute)):
                    r_ = self.prog.resolve_name_expr(mi, f_) if not (isinstance(f_, ast.Attribute) and isinstance(f_.value, ast.Call)) else None
                    if r_ and r_[0] == "external":
                        return "ext:" + r_[1] + "()"
                if isinstance(f_, ast.Attribute) and isinstance(f_.value, ast.Call):
                    b_ = chain(f_.value)
                    if b_ is not None:
                        return f"{b_}.{f_.attr}()"
                return None
            t_ = chain(e)
            if t_ is not None:
                return t_
        if isinstance(e, (ast.Dict, ast.DictComp)):
            return T_DICT
        if isinstance(e, ast.Call) and isinstance(e.func, ast.Name) and e.func.id == "dict" and self.prog.resolve_name_expr(mi, e.func) is None:
            return T_DICT  # dict(<pairs>) / dict(a=..): a dict whatever the entries are
        if isinstance(e, ast.BinOp) and isinstance(e.op, ast.BitOr) and all(isinstance(x, (ast.Dict, ast.DictComp)) or (isinstance(x, ast.Name) and mi.const_multi.get(x.id) == 1
                                                                              and self.const_type(mi, x.id) == T_DICT) for x in (e.left, e.right)):
            return T_DICT
        return None

    def is_json_loader(self, fi: FuncInfo) -> bool:
        """the function returns data parsed by json.loads/json.load"""
        loaded = set()
        for n in ast.walk(fi.node):
            if isinstance(n, ast.Assign) and isinstance(n.value, ast.Call):
                r = self.prog.resolve_name_expr(fi.module, n.value.func)
                if r and r[0] == "external" and r[1] in ("json.loads", "json.load"):
                    for t in n.targets:
                        if isinstance(t, ast.Name):
                            loaded.add(t.id)
        for n in ast.walk(fi.node):
            if isinstance(n, ast.Return) and n.value is not None:
                v = n.value
                if isinstance(v, ast.Name) and v.id in loaded:
                    return True
                if isinstance(v, ast.Call):
                    r = self.prog.resolve_name_expr(fi.module, v.func)
                    if r and r[0] == "external" and r[1] in ("json.loads", "json.load"):
                        return True
        return False

    def rule_field_type(self, attr: str):
        """types of Rule's fields, from the assignments in Rule.__init__"""
        if not hasattr(self, "_rule_fields"):
            self._rule_fields = {}
            ci = self.prog.classes.get(RULE_Q)
            # the field types and the methods' local types depend on each other (a constructor that derives one field from
            # another): iterate, dropping every function typing that was inferred while the field table was still incomplete
            for _round in range(4):
                before = set(self._ft)
                fields = {}
                for m in (list(ci.methods.values()) if ci else []):
                    if not m.bound or m.kind == "class":
                        continue
                    self._ft.pop(m.qname, None) if _round else None
                    ft = self.types(m)
                    sname = m.params[0] if m.params else "self"
                    for n in ast.walk(m.node):
                        if isinstance(n, ast.Assign):
                            for t in n.targets:
                                if isinstance(t, ast.Attribute) and isinstance(t.value, ast.Name) and t.value.id == sname:
                                    vt = ft.type_of(n.value)
                                    if vt is not None:
                                        fields[t.attr] = tjoin(fields.get(t.attr), vt)
                stable = fields == self._rule_fields
                self._rule_fields = fields
                for q in set(self._ft) - before:
                    self._ft.pop(q, None)
                for m in (list(ci.methods.values()) if ci else []):
                    self._ft.pop(m.qname, None)
                if stable:
                    break
        t = self._rule_fields.get(attr)
        if t is not None:
            return t
        ci = self.prog.classes.get(RULE_Q)
        m = ci.methods.get(attr) if ci else None
        if m is not None and m.kind == "property":
            return self.return_type(m)
        return None

    def param_types_from_calls(self):
        """join of the types of the actuals over all call sites, per (function, parameter);
        only used to propagate spec-taint into untyped/`list`-annotated parameters"""
        if hasattr(self, "_pt"):
            return self._pt
        self._pt = {}
        from .model import iter_funcs_in_module
        for _ in range(4):
            changed = False
            for mi in self.prog.modules.values():
                for fi in iter_funcs_in_module(mi):
                    ft = self.types(fi)
                    for n in ast.walk(fi.node):
                        if not isinstance(n, ast.Call):
                            continue
                        for tg in self.resolve_call(ft, n):
                            if tg.func is None:
                                continue
                            for pn, a in self.arg_map(tg, n).items():
                                t = ft.type_of(a)
                                if t == T_SPEC:
                                    key = (tg.func.qname, pn)
                                    if self._pt.get(key) != T_SPEC:
                                        self._pt[key] = T_SPEC
                                        changed = True
            if changed:
                # re-infer the functions whose parameters changed
                for (q, pn) in list(self._pt):
                    ft = self._ft.get(q)
                    if ft is not None and ft.env.get(pn) != T_SPEC:
                        self._ft.pop(q, None)
                self._ret.clear()
            else:
                break
        return self._pt

    def return_type(self, fi: FuncInfo):
        if fi.qname in self._ret:
            return self._ret[fi.qname]
        if fi.qname in self._ret_busy:
            return None
        self._ret_busy.add(fi.qname)
        t = None
        ann = fi.node.returns
        ft = self.types(fi)
        if ann is not None:
            t = ft._ann_type(ann)
            if isinstance(ann, ast.Constant) and ann.value is None:
                t = T_NONE
        if t in (None, T_LIST, T_DICT):
            t2 = None
            for n in ast.walk(fi.node):
                if isinstance(n, ast.Return):
                    t2 = tjoin(t2, ft.type_of(n.value) if n.value is not None else T_NONE)
            if t2 is not None and not (t in (T_LIST, T_DICT) and t2 == T_ANY):
                t = tjoin(t, t2) if t is not None else t2
        self._ret_busy.discard(fi.qname)
        if not getattr(ft, "partial", False):
            self._ret[fi.qname] = t
        return t

    def fills_nodes(self, fi: FuncInfo) -> Set[str]:
        """names of parameters that the function fills with Nodes (out-params)"""
        if fi.qname in self._fills:
            return self._fills[fi.qname]
        if fi.qname in self._fills_busy:
            return set()
        self._fills_busy.add(fi.qname)
        out = set()
        ft = self.types(fi)
        for n in ast.walk(fi.node):
            if isinstance(n, ast.Call) and isinstance(n.func, ast.Attribute) and n.func.attr in ("append", "insert", "extend"):
                v = n.func.value
                if isinstance(v, ast.Name) and v.id in fi.params and n.args:
                    et = ft.type_of(n.args[-1])
                    if et in (T_NODE, T_NLIST):
                        out.add(v.id)
        self._fills_busy.discard(fi.qname)
        self._fills[fi.qname] = out
        return out

    # -------------------------------------------------------- call resolution
    def unique_node_methods(self) -> Set[str]:
        if self._unique_node_methods is None:
            names = set(self.nm.ci.methods)
            other = set()
            for ci in self.prog.classes.values():
                if ci.qname != NODE_Q:
                    other |= set(ci.methods)
            self._unique_node_methods = names - other - LIST_METHODS - DICT_METHODS - STR_METHODS
        return self._unique_node_methods

    def resolve_call(self, ft: FuncTypes, call: ast.Call, count: bool = False) -> List[Target]:
        fi = ft.fi
        f = call.func
        prog = self.prog
        out: List[Target] = []
        if isinstance(f, ast.Name) and f.id not in fi.module.functions and f.id not in fi.module.classes and f.id in ft.assigned_names():
            # a local bound to an entry of a constant dispatch table of functions
            tables = []
            for a in ast.walk(fi.node):
                if isinstance(a, ast.Assign) and any(isinstance(t, ast.Name) and t.id == f.id for t in a.targets):
                    v = a.value
                    tb = None
                    if isinstance(v, ast.Subscript):
                        tb = v.value
                    elif isinstance(v, ast.Call) and isinstance(v.func, ast.Attribute) and v.func.attr == "get":
                        tb = v.func.value
                    tables.append(tb)
            done = False
            if tables and all(t is not None for t in tables):
                for tb in tables:
                    r = prog.resolve_name_expr(fi.module, tb) if isinstance(tb, (ast.Name, ast.Attribute)) else None
                    table = r[1].consts.get(r[2]) if r and r[0] == "const" else None
                    if table is not None and not isinstance(table, ast.Dict):
                        from .astutil import as_dict_literal
                        table = as_dict_literal(prog, r[1], table)
                    if isinstance(table, ast.Dict) and table.values:
                        for v in table.values:
                            rv = prog.resolve_name_expr(r[1], v)
                            if rv and rv[0] == "func":
                                out.append(Target("func", rv[1]))
                                done = True
            if not done:
                out.append(Target("unknown", name=f.id))
        elif isinstance(f, ast.Name):
            if f.id in ft.env and ft.env.get(f.id) is not None and not (f.id in fi.module.functions or f.id in fi.module.classes):
                out.append(Target("unknown", name=f.id))
            else:
                r = prog.resolve_name_expr(fi.module, f)
                if r and r[0] == "func":
                    out.append(Target("func", r[1]))
                elif r and r[0] == "class":
                    init = self.lookup_method(r[1], "__init__")
                    out.append(Target("class", init, name=r[1].qname))
                elif r and r[0] == "external":
                    out.append(Target("ext", name=r[1]))
                elif hasattr(builtins, f.id):
                    out.append(Target("builtin", name=f.id))
                else:
                    out.append(Target("unknown", name=f.id))
        elif isinstance(f, ast.Attribute):
            recv = f.value
            bt = ft.type_of(recv)
            r = prog.resolve_name_expr(fi.module, f)
            if r and r[0] == "func":
                tfi = r[1]
                # Class.method(...) or module.func(...)
                out.append(Target("func", tfi))
            elif r and r[0] == "class":
                init = self.lookup_method(r[1], "__init__")
                out.append(Target("class", init, name=r[1].qname))
            elif r and r[0] == "external":
                out.append(Target("ext", name=r[1]))
            elif bt is not None and (bt.startswith("class:")):
                ci = prog.classes.get(bt[6:])
                m = self.lookup_method(ci, f.attr) if ci else None
                if m is not None:
                    out.append(Target("func", m, bound_recv=recv if m.kind == "class" else None))
                else:
                    out.append(Target("unknown", name=f.attr))
            elif bt in (T_NODE, T_OPT):
                m = self.lookup_method(self.nm.ci, f.attr)
                if m is not None:
                    out.append(Target("func", m, bound_recv=recv))
                else:
                    out.append(Target("unknown", name=f.attr, recv_type=bt))
            elif bt == T_RULE or (bt is not None and bt.startswith("inst:")):
                ci = prog.classes.get(RULE_Q if bt == T_RULE else bt[5:])
                m = self.lookup_method(ci, f.attr) if ci else None
                if m is not None:
                    out.append(Target("func", m, bound_recv=recv))
                else:
                    out.append(Target("unknown", name=f.attr, recv_type=bt))
            elif bt in (T_NLIST, T_LIST, T_NDICT, T_DICT, T_STR, T_OPTSTR, "tuple", "float", T_INT, "bytes", T_SPEC, "gen", "exc"):
                out.append(Target("method", name=f.attr, recv_type=bt))
            elif bt is not None and bt.startswith("ext:"):
                out.append(Target("ext", name=f"{bt[4:]}.{f.attr}"))
            elif bt == T_ELEM:
                out.append(Target("ext", name=f"xmlelem.{f.attr}"))
            else:
                # receiver of unknown type: Node API only if the name is unique to Node
                if f.attr in self.unique_node_methods():
                    out.append(Target("func", self.nm.ci.methods[f.attr], bound_recv=recv))
                elif f.attr in LIST_METHODS | DICT_METHODS | STR_METHODS:
                    out.append(Target("method", name=f.attr, recv_type=None))
                    if f.attr in self.nm.ci.methods:
                        # e.g. ``x.copy()`` on an untyped receiver: may be Node.copy
                        out.append(Target("func", self.nm.ci.methods[f.attr], bound_recv=recv))
                else:
                    out.append(Target("unknown", name=f.attr))
        elif isinstance(f, ast.Subscript):
            r = prog.resolve_name_expr(fi.module, f.value)
            table = None
            if r and r[0] == "const":
                table = r[1].consts.get(r[2])
                if table is not None and not isinstance(table, ast.Dict):
                    from .astutil import as_dict_literal
                    table = as_dict_literal(prog, r[1], table)
            if isinstance(table, ast.Dict) and table.values:
                for v in table.values:
                    rv = prog.resolve_name_expr(r[1], v)
                    if rv and rv[0] == "func":
                        out.append(Target("func", rv[1]))
                    else:
                        out.append(Target("unknown", name=norm(v)))
            else:
                out.append(Target("unknown", name=norm(f)))
        else:
            out.append(Target("unknown", name=norm(f)))
        if count:
            for t in out[:1]:
                k = {"func": "resolved", "class": "resolved", "ext": "external", "builtin": "builtin",
                     "method": "container_method", "unknown": "unresolved"}[t.kind]
                self.call_stats[k] += 1
                if t.kind == "unknown":
                    self.unresolved_sites.append(f"{fi.loc(call)} {norm(call.func)}")
        return out

    def lookup_method(self, ci: Optional[ClassInfo], name: str) -> Optional[FuncInfo]:
        if ci is None:
            return None
        for q in self.prog.mro(ci):
            c = self.prog.classes.get(q)
            if c is not None and name in c.methods:
                return c.methods[name]
        return None

    def arg_map(self, tgt: Target, call: ast.Call) -> Dict[str, ast.expr]:
        """callee parameter name -> actual expression (receiver included)"""
        fi = tgt.func
        if fi is None:
            return {}
        m: Dict[str, ast.expr] = {}
        pos = fi.pos_params
        if tgt.kind == "class":
            # constructor: first parameter is the fresh object
            pos = pos[1:]
        elif fi.bound:
            if tgt.bound_recv is not None:
                m[pos[0]] = tgt.bound_recv
                pos = pos[1:]
            elif fi.kind == "class":
                pos = pos[1:]
            else:
                # Class.method(obj, ...) explicit receiver: positional as written
                pass
        for i, a in enumerate(call.args):
            if isinstance(a, ast.Starred):
                break
            if i < len(pos):
                m[pos[i]] = a
        for k in call.keywords:
            if k.arg is not None:
                m[k.arg] = k.value
        return m
