"""Guarded-value form of a loop-free statement block: for one assigned place (an attribute of an object or a local) the set
of (atomic path conditions, final value expression) over all paths, with locals and earlier values of the place substituted
symbolically.  Two blocks that compute the same thing by differently shaped control flow (nested ifs, elif chains, guard
clauses, `or`-merged tests, a temporary stored in the place itself) have the same guarded-value form.  No value of the
program is computed: expressions stay expressions."""
from __future__ import annotations

import ast
import copy
from typing import Callable, Dict, List, Optional, Tuple

from .model import AnalysisError, norm

MAX_PATHS = 400


class _Sub(ast.NodeTransformer):
    def __init__(self, env, place_key):
        self.env, self.place_key = env, place_key

    def visit_Name(self, n):
        if isinstance(n.ctx, ast.Load) and n.id in self.env:
            return copy.deepcopy(self.env[n.id])
        return n

    def visit_Attribute(self, n):
        k = self.place_key(n)
        if k is not None and isinstance(n.ctx, ast.Load) and k in self.env:
            return copy.deepcopy(self.env[k])
        return self.generic_visit(n)


def atoms(test, pol=True) -> List[List[Tuple[ast.expr, bool]]]:
    """disjunctive decomposition of `test == pol` into lists of (atomic expression, polarity) honouring short-circuit order"""
    if isinstance(test, ast.UnaryOp) and isinstance(test.op, ast.Not):
        return atoms(test.operand, not pol)
    if isinstance(test, ast.BoolOp):
        is_and = isinstance(test.op, ast.And)
        if is_and == pol:
            # all operands have the value `pol`
            out = [[]]
            for v in test.values:
                out = [a + b for a in out for b in atoms(v, pol)]
            return out
        # some operand has the value `pol`; the ones before it have the other value
        out = []
        prefix = [[]]
        for v in test.values:
            for p in prefix:
                for b in atoms(v, pol):
                    out.append(p + b)
            prefix = [p + b for p in prefix for b in atoms(v, not pol)]
        return out
    return [[(test, pol)]]


def canon_atom(e, pol, regex_of: Optional[Callable] = None) -> Tuple[str, bool]:
    if isinstance(e, ast.Compare) and len(e.ops) == 1:
        op, l, r = e.ops[0], e.left, e.comparators[0]
        if isinstance(op, ast.IsNot):
            return canon_atom(ast.Compare(left=l, ops=[ast.Is()], comparators=[r]), not pol, regex_of)
        if isinstance(op, ast.NotEq):
            return canon_atom(ast.Compare(left=l, ops=[ast.Eq()], comparators=[r]), not pol, regex_of)
        if isinstance(op, ast.NotIn):
            return canon_atom(ast.Compare(left=l, ops=[ast.In()], comparators=[r]), not pol, regex_of)
        if isinstance(op, (ast.Eq, ast.Is)) and isinstance(l, ast.Constant) and not isinstance(r, ast.Constant):
            l, r = r, l
        return f"{norm(l)} {type(op).__name__} {norm(r)}", pol
    if isinstance(e, ast.Call) and regex_of is not None:
        rx = regex_of(e)
        if rx is not None:
            return f"re.{rx[1]}({rx[0]!r}, {norm(rx[2])})", pol
    if isinstance(e, ast.Compare) and len(e.ops) == 1 and isinstance(e.ops[0], ast.Eq):
        pass
    # truthiness of a string-valued expression compared with '' is the same atom as `x == ''` negated: keep textual
    return norm(e), pol


def guarded_values(stmts, place_key: Callable, target, locals_ok: Callable[[str], bool] = lambda n: True, regex_of=None):
    """[(tuple of canonical (atom, polarity) in evaluation order, normalised final value or None when never assigned)]
    ``place_key(attribute node)`` gives a hashable key for attribute places to track (or None); ``target`` is the key of
    the place whose final value is wanted."""
    results = []

    def run(block, env, conds, k):
        if len(results) > MAX_PATHS:
            raise AnalysisError("guarded-value form: too many paths")
        if not block:
            return k(env, conds)
        s, rest = block[0], block[1:]
        if isinstance(s, ast.If):
            for pol, branch in ((True, s.body), (False, s.orelse)):
                for alt in atoms(s.test, pol):
                    cs = list(conds)
                    feasible = True
                    for (a, p) in alt:
                        a2 = _Sub(env, place_key).visit(copy.deepcopy(a))
                        ca = canon_atom(a2, p, regex_of)
                        if (ca[0], not ca[1]) in cs:
                            feasible = False
                            break
                        if ca not in cs:
                            cs.append(ca)
                    if feasible:
                        run(list(branch) + list(rest), dict(env), cs, k)
            return
        if isinstance(s, ast.Assign) and len(s.targets) == 1:
            t = s.targets[0]
            v = _Sub(env, place_key).visit(copy.deepcopy(s.value))
            env = dict(env)
            if isinstance(t, ast.Name) and locals_ok(t.id):
                env[t.id] = v
            elif isinstance(t, ast.Attribute) and place_key(t) is not None:
                env[place_key(t)] = v
            return run(rest, env, conds, k)
        if isinstance(s, (ast.Pass, ast.Expr)):
            return run(rest, env, conds, k)
        if isinstance(s, (ast.Return, ast.Raise, ast.Continue, ast.Break)):
            return k(env, conds)
        raise AnalysisError(f"guarded-value form: statement {type(s).__name__} not supported")

    def done(env, conds):
        v = env.get(target)
        results.append((tuple(conds), norm(v) if v is not None else None))
    run(list(stmts), {}, [], done)
    return results
