"""Exception class hierarchy: builtins (from the language), the repository's
own classes (from the program model) and the installed rfc3986 library (its
exceptions module is *parsed*, not imported)."""
from __future__ import annotations

import ast
import builtins
import glob
import os
from typing import Dict, List, Optional

from .model import AnalysisError, Program


class Hierarchy:
    def __init__(self, prog: Program):
        self.prog = prog
        self.parents: Dict[str, List[str]] = {}
        for name in dir(builtins):
            obj = getattr(builtins, name)
            if isinstance(obj, type) and issubclass(obj, BaseException):
                self.parents[name] = [b.__name__ for b in obj.__bases__ if issubclass(b, BaseException)]
        for ci in prog.classes.values():
            self.parents[ci.qname] = list(ci.bases)
        self._load_external("rfc3986.exceptions")
        # json / lxml errors that the slices may mention in handlers
        self.parents.setdefault("json.JSONDecodeError", ["ValueError"])
        self.parents.setdefault("json.decoder.JSONDecodeError", ["ValueError"])
        self.parents.setdefault("lxml.etree.XMLSyntaxError", ["SyntaxError"])

    def _load_external(self, modname: str):
        cands = glob.glob(f"/venv/lib/python3*/site-packages/{modname.replace('.', '/')}.py")
        if not cands:
            return
        try:
            tree = ast.parse(open(cands[0], encoding="utf-8").read())
        except (OSError, SyntaxError):
            return
        local = {}
        for st in tree.body:
            if isinstance(st, ast.ClassDef):
                local[st.name] = f"{modname}.{st.name}"
        for st in tree.body:
            if isinstance(st, ast.ClassDef):
                ps = []
                for b in st.bases:
                    if isinstance(b, ast.Name):
                        ps.append(local.get(b.id, b.id))
                self.parents[f"{modname}.{st.name}"] = ps

    def known(self, c: str) -> bool:
        return c in self.parents

    def ancestors(self, c: str):
        seen = []
        todo = [c]
        while todo:
            x = todo.pop()
            if x in seen:
                continue
            seen.append(x)
            todo.extend(self.parents.get(x, []))
        return seen

    def issub(self, c: str, x: str) -> bool:
        return x in self.ancestors(c)

    def closure_below(self, root: str):
        return sorted(c for c in self.parents if self.issub(c, root))

    def short(self, c: str) -> str:
        return c.rsplit(".", 1)[-1]


def resolve_exc_class(prog: Program, mi, e: ast.expr) -> Optional[str]:
    """Name of the exception class denoted by ``e`` in module ``mi``"""
    if isinstance(e, ast.Call):
        e = e.func
    r = prog.resolve_name_expr(mi, e)
    if r is not None:
        if r[0] == "class":
            return r[1].qname
        if r[0] == "external":
            return r[1]
    if isinstance(e, ast.Name) and hasattr(builtins, e.id):
        obj = getattr(builtins, e.id)
        if isinstance(obj, type) and issubclass(obj, BaseException):
            return e.id
    return None
