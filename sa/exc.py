"""Exception class hierarchy: builtins (from the language), the repository's
own classes (from the program model) and the installed rfc3986 library (its
exceptions module is *parsed*, not imported)."""
from __future__ import annotations

import ast
import builtins
import glob
import os
from typing import Dict, List, Optional

from .model import AnalysisError, Program


class Hierarchy:
    def __init__(self, prog: Program):
        self.prog = prog
        self.parents: Dict[str, List[str]] = {}
        for name in dir(builtins):
            obj = getattr(builtins, name)
            if isinstance(obj, type) and issubclass(obj, BaseException):
                self.parents[name] = [b.__name__ for b in obj.__bases__ if issubclass(b, BaseException)]
        for ci in prog.classes.values():
            self.parents[ci.qname] = list(ci.bases)
        self._load_external("rfc3986.exceptions")
        # json / lxml errors that the slices may mention in handlers
        self.parents.setdefault("json.JSONDecodeError", ["ValueError"])
        self.parents.setdefault("json.decoder.JSONDecodeError", ["ValueError"])
        self.parents.setdefault("lxml.etree.XMLSyntaxError", ["SyntaxError"])

    def _load_external(self, modname: str):
        cands = glob.glob(f"/venv/lib/python3*/site-packages/{modname.replace('.', '/')}.py")
        if not cands:
            return
        try:
            tree = ast.parse(open(cands[0], encoding="utf-8").read())
        except (OSError, SyntaxError):
            return
        local = {}
        for st in tree.body:
            if isinstance(st, ast.ClassDef):
                local[st.name] = f"{modname}.{st.name}"
        for st in tree.body:
            if isinstance(st, ast.ClassDef):
                ps = []
                for b in st.bases:
                    if isinstance(b, ast.Name):
                        ps.append(local.get(b.id, b.id))
                self.parents[f"{modname}.{st.name}"] = ps

    def known(self, c: str) -> bool:
        return c in self.parents

    def ancestors(self, c: str):
        seen = []
        todo = [c]
        while todo:
            x = todo.pop()
            if x in seen:
                continue
            seen.append(x)
            todo.extend(self.parents.get(x, []))
        return seen

    def issub(self, c: str, x: str) -> bool:
        return x in self.ancestors(c)

    def closure_below(self, root: str):
        return sorted(c for c in self.parents if self.issub(c, root))

    def short(self, c: str) -> str:
        return c.rsplit(".", 1)[-1]


def resolve_exc_class(prog: Program, mi, e: ast.expr) -> Optional[str]:
    """Name of the exception class denoted by ``e`` in module ``mi``"""
    if isinstance(e, ast.Call):
        e = e.func
    r = prog.resolve_name_expr(mi, e)
    if r is not None:
        if r[0] == "class":
            return r[1].qname
        if r[0] == "external":
            return r[1]
    if isinstance(e, ast.Name) and hasattr(builtins, e.id):
        obj = getattr(builtins, e.id)
        if isinstance(obj, type) and issubclass(obj, BaseException):
            return e.id
    return None


def _const_dict_ast(prog: Program, mi, e: ast.expr):
    """(module, ast.Dict) when ``e`` names a dict literal bound once at module or class level"""
    r = prog.resolve_name_expr(mi, e) if isinstance(e, (ast.Name, ast.Attribute)) else None
    if r and r[0] == "const" and r[1].const_multi.get(r[2]) == 1 and isinstance(r[1].consts[r[2]], ast.Dict):
        return r[1], r[1].consts[r[2]]
    if r and r[0] == "classattr" and isinstance(r[1].class_attrs.get(r[2]), ast.Dict):
        return r[1].module, r[1].class_attrs[r[2]]
    if isinstance(e, ast.Attribute) and isinstance(e.value, ast.Name) and e.value.id in ("self", "cls"):
        for ci in mi.classes.values():
            if isinstance(ci.class_attrs.get(e.attr), ast.Dict):
                return mi, ci.class_attrs[e.attr]
    return None


def resolve_exc_classes(prog: Program, mi, e: ast.expr, env=None):
    """all exception classes the expression of a ``raise`` may denote: a class, a class taken from a constant
    dict (``TABLE[k]`` / ``TABLE.get(k, Default)``), or a parameter bound in ``env``; None when it cannot be told"""
    env = env or {}
    if isinstance(e, ast.Call) and isinstance(e.func, ast.Attribute) and e.func.attr == "get" and e.args \
            and _const_dict_ast(prog, mi, e.func.value) is not None:
        pass  # TABLE.get(k, Default): handled as a table lookup below
    elif isinstance(e, ast.Call):
        inner = e.func
        # X(...) where X is itself TABLE.get(...)  /  TABLE[...]
        if isinstance(inner, (ast.Call, ast.Subscript)) or (isinstance(inner, ast.Name) and inner.id in env):
            return resolve_exc_classes(prog, mi, inner, env)
        one = resolve_exc_class(prog, mi, e)
        return [one] if one else None
    if isinstance(e, ast.Name) and e.id in env:
        v = env[e.id]
        if isinstance(v, tuple) and v and v[0] == "class":
            return [v[1]]
        return None
    if isinstance(e, (ast.Name, ast.Attribute)):
        one = resolve_exc_class(prog, mi, e)
        return [one] if one else None
    table, key, default = None, None, None
    if isinstance(e, ast.Call) and isinstance(e.func, ast.Attribute) and e.func.attr == "get" and e.args:
        table, key = e.func.value, e.args[0]
        default = e.args[1] if len(e.args) > 1 else False
    elif isinstance(e, ast.Subscript):
        table, key = e.value, e.slice
    if table is None:
        return None
    d = _const_dict_ast(prog, mi, table)
    if d is None:
        return None
    dm, dast = d
    kv = prog.const(mi, key, local={k: v for k, v in env.items() if not (isinstance(v, tuple) and v and v[0] == "class")})
    out = []
    from .model import UNKNOWN
    hit = False
    for k, v in zip(dast.keys, dast.values):
        if k is None:
            return None
        c = resolve_exc_class(prog, dm, v)
        if c is None:
            return None
        if kv is not UNKNOWN:
            if prog.const(dm, k) == kv:
                out.append(c)
                hit = True
        else:
            out.append(c)
    if (kv is UNKNOWN or not hit) and default is not None:
        if default is False:
            if kv is not UNKNOWN and not hit and isinstance(e, ast.Call):
                return None  # .get() without default yields None: raising it is a TypeError
            if isinstance(e, ast.Subscript) and not hit and kv is not UNKNOWN:
                out.append("KeyError")
        else:
            dc = resolve_exc_classes(prog, mi, default, env)
            if dc is None:
                return None
            out.extend(dc)
    seen = []
    for c in out:
        if c not in seen:
            seen.append(c)
    return seen or None
