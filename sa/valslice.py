"""The validation slice: functions reachable from the validation entry points,
their mode parameter (the ``errs`` list, derived structurally, not by name)
and the raise/append report pairs."""
from __future__ import annotations

import ast
from dataclasses import dataclass
from typing import Dict, List, Optional, Set, Tuple

from .exc import resolve_exc_class
from .model import AnalysisError, EnumMember, FuncInfo, norm

ENTRY = ["metapype.eml.validate.node", "metapype.eml.validate.tree", "metapype.eml.rule.Rule.validate_rule"]
RULE_ERR = "metapype.eml.exceptions.MetapypeRuleError"
VERR = "metapype.eml.validation_errors.ValidationError"


def reachable(ctx, roots: List[FuncInfo]) -> List[FuncInfo]:
    w = ctx.world
    seen: Dict[str, FuncInfo] = {}
    todo = list(roots)
    while todo:
        fi = todo.pop()
        if fi.qname in seen:
            continue
        seen[fi.qname] = fi
        ft = w.types(fi)
        for n in ast.walk(fi.node):
            if isinstance(n, ast.Call):
                for tg in w.resolve_call(ft, n):
                    if tg.func is not None and tg.func.qname not in seen:
                        todo.append(tg.func)
    return [seen[k] for k in sorted(seen)]


def is_none_test(test, name) -> Optional[bool]:
    """True for `name is None`, False for `name is not None`, else None"""
    if isinstance(test, ast.Compare) and len(test.ops) == 1 and isinstance(test.left, ast.Name) and test.left.id == name \
            and isinstance(test.comparators[0], ast.Constant) and test.comparators[0].value is None:
        if isinstance(test.ops[0], ast.Is):
            return True
        if isinstance(test.ops[0], ast.IsNot):
            return False
    return None


def mode_params(ctx, funcs: List[FuncInfo]) -> Dict[str, str]:
    """function qname -> name of its mode parameter"""
    w = ctx.world
    out: Dict[str, str] = {}
    for fi in funcs:
        for p in fi.params:
            hit = False
            for n in ast.walk(fi.node):
                if isinstance(n, ast.If) and is_none_test(n.test, p) is not None:
                    has_raise = any(isinstance(x, ast.Raise) for b in (n.body, n.orelse) for s in b for x in ast.walk(s))
                    has_app = any(isinstance(x, ast.Call) and isinstance(x.func, ast.Attribute) and x.func.attr == "append"
                                  and isinstance(x.func.value, ast.Name) and x.func.value.id == p
                                  for b in (n.body, n.orelse) for s in b for x in ast.walk(s))
                    if has_raise or has_app:
                        hit = True
            if hit:
                out[fi.qname] = p
    changed = True
    while changed:
        changed = False
        for fi in funcs:
            if fi.qname in out:
                continue
            ft = w.types(fi)
            for n in ast.walk(fi.node):
                if not isinstance(n, ast.Call):
                    continue
                for tg in w.resolve_call(ft, n):
                    if tg.func is None or tg.func.qname not in out:
                        continue
                    a = w.arg_map(tg, n).get(out[tg.func.qname])
                    if isinstance(a, ast.Name) and a.id in fi.params:
                        out[fi.qname] = a.id
                        changed = True
    return out


@dataclass
class Pair:
    func: FuncInfo
    if_node: ast.AST
    raise_node: Optional[ast.Raise]
    append_call: Optional[ast.Call]
    exc_cls: Optional[str]
    code: Optional[object]
    idiom: str


def report_sites(ctx, fi: FuncInfo, mp: str):
    """(pairs, orphans): orphans are raises of rule errors / appends to the
    error list that are not one half of a recognised pair."""
    prog = ctx.prog
    h = ctx.hier
    pairs: List[Pair] = []
    used: Set[int] = set()

    def rule_raise(s) -> Optional[str]:
        if isinstance(s, ast.Raise) and s.exc is not None:
            c = resolve_exc_class(prog, fi.module, s.exc)
            if c is not None and h.issub(c, RULE_ERR):
                return c
        return None

    def append_of(s) -> Optional[ast.Call]:
        if isinstance(s, ast.Expr) and isinstance(s.value, ast.Call):
            c = s.value
            if isinstance(c.func, ast.Attribute) and c.func.attr == "append" and isinstance(c.func.value, ast.Name) and c.func.value.id == mp:
                return c
        return None

    def code_of(call: ast.Call):
        if call.args and isinstance(call.args[0], ast.Tuple) and call.args[0].elts:
            return prog.const(fi.module, call.args[0].elts[0])
        return None

    def scan(stmts):
        for i, s in enumerate(stmts):
            if isinstance(s, ast.If):
                t = is_none_test(s.test, mp)
                if t is not None:
                    rb, ab = (s.body, s.orelse) if t else (s.orelse, s.body)
                    if len(rb) == 1 and rule_raise(rb[0]) and len(ab) == 1 and append_of(ab[0]) is not None:
                        a = append_of(ab[0])
                        pairs.append(Pair(fi, s, rb[0], a, rule_raise(rb[0]), code_of(a), "if/else"))
                        used.add(id(rb[0]))
                        used.add(id(a))
                        continue
                    # early raise followed by the append as the next statement
                    if t and len(rb) == 1 and rule_raise(rb[0]) and not ab and i + 1 < len(stmts) and append_of(stmts[i + 1]) is not None:
                        a = append_of(stmts[i + 1])
                        pairs.append(Pair(fi, s, rb[0], a, rule_raise(rb[0]), code_of(a), "early-raise"))
                        used.add(id(rb[0]))
                        used.add(id(a))
                        continue
            for fld in ("body", "orelse", "finalbody"):
                sub = getattr(s, fld, None)
                if isinstance(sub, list) and sub and isinstance(sub[0], ast.stmt):
                    scan(sub)
            if isinstance(s, ast.Try):
                for hd in s.handlers:
                    scan(hd.body)

    scan(fi.node.body)
    orphans = []
    for n in ast.walk(fi.node):
        if isinstance(n, ast.Raise) and id(n) not in used and rule_raise(n):
            orphans.append(n)
        if isinstance(n, ast.Call) and id(n) not in used and isinstance(n.func, ast.Attribute) and n.func.attr in ("append", "extend", "insert") \
                and isinstance(n.func.value, ast.Name) and n.func.value.id == mp:
            orphans.append(n)
    return pairs, orphans
