"""The validation slice: functions reachable from the validation entry points,
their mode parameter (the ``errs`` list, derived structurally, not by name)
and the raise/append report pairs."""
from __future__ import annotations

import ast
from dataclasses import dataclass
from typing import Dict, List, Optional, Set, Tuple

from .exc import resolve_exc_class, resolve_exc_classes
from .model import AnalysisError, EnumMember, FuncInfo, norm

ENTRY = ["metapype.eml.validate.node", "metapype.eml.validate.tree", "metapype.eml.rule.Rule.validate_rule"]
RULE_ERR = "metapype.eml.exceptions.MetapypeRuleError"
VERR = "metapype.eml.validation_errors.ValidationError"


def reachable(ctx, roots: List[FuncInfo]) -> List[FuncInfo]:
    w = ctx.world
    seen: Dict[str, FuncInfo] = {}
    todo = list(roots)
    while todo:
        fi = todo.pop()
        if fi.qname in seen:
            continue
        seen[fi.qname] = fi
        ft = w.types(fi)
        for n in ast.walk(fi.node):
            if isinstance(n, ast.Call):
                for tg in w.resolve_call(ft, n):
                    if tg.func is not None and tg.func.qname not in seen:
                        todo.append(tg.func)
    return [seen[k] for k in sorted(seen)]


def is_none_test(test, name) -> Optional[bool]:
    """True for `name is None`, False for `name is not None`, else None"""
    if isinstance(test, ast.Compare) and len(test.ops) == 1 and isinstance(test.left, ast.Name) and test.left.id == name \
            and isinstance(test.comparators[0], ast.Constant) and test.comparators[0].value is None:
        if isinstance(test.ops[0], ast.Is):
            return True
        if isinstance(test.ops[0], ast.IsNot):
            return False
    return None


def mode_params(ctx, funcs: List[FuncInfo]) -> Dict[str, str]:
    """function qname -> name of its mode parameter"""
    w = ctx.world
    out: Dict[str, str] = {}
    for fi in funcs:
        for p in fi.params:
            hit = False
            for n in ast.walk(fi.node):
                if isinstance(n, ast.If) and is_none_test(n.test, p) is not None:
                    has_raise = any(isinstance(x, ast.Raise) for b in (n.body, n.orelse) for s in b for x in ast.walk(s))
                    has_app = any(isinstance(x, ast.Call) and isinstance(x.func, ast.Attribute) and x.func.attr == "append"
                                  and isinstance(x.func.value, ast.Name) and x.func.value.id == p
                                  for b in (n.body, n.orelse) for s in b for x in ast.walk(s))
                    if has_raise or has_app:
                        hit = True
            if hit:
                out[fi.qname] = p
    changed = True
    while changed:
        changed = False
        for fi in funcs:
            if fi.qname in out:
                continue
            ft = w.types(fi)
            for n in ast.walk(fi.node):
                if not isinstance(n, ast.Call):
                    continue
                for tg in w.resolve_call(ft, n):
                    if tg.func is None or tg.func.qname not in out:
                        continue
                    a = w.arg_map(tg, n).get(out[tg.func.qname])
                    if isinstance(a, ast.Name) and a.id in fi.params:
                        out[fi.qname] = a.id
                        changed = True
    return out


@dataclass
class Pair:
    func: FuncInfo
    if_node: ast.AST
    raise_node: Optional[ast.Raise]
    append_call: Optional[ast.Call]
    exc_cls: Optional[str]
    code: Optional[object]
    idiom: str
    helper: bool = False  # class and/or code come from the function's own parameters (a reporting helper)
    exc_classes: Optional[list] = None
    via_helper: Optional[str] = None


def report_sites(ctx, fi: FuncInfo, mp: str):
    """(pairs, orphans): orphans are raises of rule errors / appends to the
    error list that are not one half of a recognised pair."""
    prog = ctx.prog
    h = ctx.hier
    pairs: List[Pair] = []
    used: Set[int] = set()

    def rule_raise(s) -> Optional[str]:
        if isinstance(s, ast.Raise) and s.exc is not None:
            cs = resolve_exc_classes(prog, fi.module, s.exc, {p: ("class", RULE_ERR) for p in fi.params})
            if cs and all(h.issub(c, RULE_ERR) for c in cs):
                return cs[0] if len(cs) == 1 else "|".join(cs)
        return None

    def is_helper(raise_stmt, app) -> bool:
        names = {x.id for x in ast.walk(raise_stmt.exc.func if isinstance(raise_stmt.exc, ast.Call) else raise_stmt.exc) if isinstance(x, ast.Name)}
        code_e = app.args[0].elts[0] if app.args and isinstance(app.args[0], ast.Tuple) and app.args[0].elts else None
        cn = {x.id for x in ast.walk(code_e) if isinstance(x, ast.Name)} if code_e is not None else set()
        return bool((names | cn) & set(fi.params))

    def append_of(s) -> Optional[ast.Call]:
        if isinstance(s, ast.Expr) and isinstance(s.value, ast.Call):
            c = s.value
            if isinstance(c.func, ast.Attribute) and c.func.attr == "append" and isinstance(c.func.value, ast.Name) and c.func.value.id == mp:
                return c
        return None

    def code_of(call: ast.Call):
        if call.args and isinstance(call.args[0], ast.Tuple) and call.args[0].elts:
            return prog.const(fi.module, call.args[0].elts[0])
        return None

    def is_prep(s) -> bool:
        """a statement that only prepares values for the report (no exit, no report, no call with an effect)"""
        if not isinstance(s, (ast.Assign, ast.AnnAssign, ast.If, ast.Pass)):
            return False
        for n in ast.walk(s):
            if isinstance(n, (ast.Raise, ast.Return, ast.Continue, ast.Break, ast.Yield, ast.Await)):
                return False
            if isinstance(n, ast.Call) and not (isinstance(n.func, ast.Name) and n.func.id in ("len", "str", "type", "repr", "tuple", "list", "sorted", "format", "int", "bool")) \
                    and not (isinstance(n.func, ast.Attribute) and n.func.attr in ("format", "join", "get")):
                return False
            if isinstance(n, (ast.Attribute, ast.Subscript)) and isinstance(n.ctx, (ast.Store, ast.Del)):
                return False
        return True

    def scan(stmts):
        for i, s in enumerate(stmts):
            if isinstance(s, ast.If):
                t = is_none_test(s.test, mp)
                if t is not None:
                    rb, ab = (s.body, s.orelse) if t else (s.orelse, s.body)
                    if len(rb) == 1 and rule_raise(rb[0]) and ab and append_of(ab[-1]) is not None and all(is_prep(x) for x in ab[:-1]):
                        a = append_of(ab[-1])
                        pairs.append(Pair(fi, s, rb[0], a, rule_raise(rb[0]), code_of(a), "if/else", helper=is_helper(rb[0], a)))
                        used.add(id(rb[0]))
                        used.add(id(a))
                        continue
                    # early raise followed by the append as the next statement
                    j = i + 1
                    while j < len(stmts) and append_of(stmts[j]) is None and is_prep(stmts[j]):
                        j += 1
                    if t and len(rb) == 1 and rule_raise(rb[0]) and not ab and j < len(stmts) and append_of(stmts[j]) is not None:
                        a = append_of(stmts[j])
                        pairs.append(Pair(fi, s, rb[0], a, rule_raise(rb[0]), code_of(a), "early-raise", helper=is_helper(rb[0], a)))
                        used.add(id(rb[0]))
                        used.add(id(a))
                        continue
            for fld in ("body", "orelse", "finalbody"):
                sub = getattr(s, fld, None)
                if isinstance(sub, list) and sub and isinstance(sub[0], ast.stmt):
                    scan(sub)
            if isinstance(s, ast.Try):
                for hd in s.handlers:
                    scan(hd.body)

    scan(fi.node.body)
    # calls of reporting helpers count as pairs of the caller, with class and code bound from the actual arguments
    busy = ctx.cache.setdefault("_report_sites_busy", set())
    if fi.qname not in busy:
        busy.add(fi.qname)
        try:
            w = ctx.world
            ft = w.types(fi)
            for n in ast.walk(fi.node):
                if not isinstance(n, ast.Call):
                    continue
                for tg in w.resolve_call(ft, n):
                    H = tg.func
                    if H is None or H.qname == fi.qname:
                        continue
                    mph = mode_params(ctx, [H]).get(H.qname)
                    if mph is None:
                        continue
                    hp, _ = report_sites(ctx, H, mph)
                    hp = [p for p in hp if p.helper and p.func.qname == H.qname]
                    if not hp:
                        continue
                    am = w.arg_map(tg, n)
                    a_mode = am.get(mph)
                    if not (isinstance(a_mode, ast.Name) and a_mode.id == mp):
                        continue
                    env = {}
                    for pn, a in am.items():
                        v = prog.const(fi.module, a)
                        from .model import UNKNOWN as _U
                        if v is not _U:
                            env[pn] = v
                        else:
                            c = resolve_exc_class(prog, fi.module, a)
                            if c is not None:
                                env[pn] = ("class", c)
                    for P in hp:
                        code_e = P.append_call.args[0].elts[0]
                        code = prog.const(H.module, code_e, local={k: v for k, v in env.items() if not (isinstance(v, tuple) and v and v[0] == "class")})
                        cs = resolve_exc_classes(prog, H.module, P.raise_node.exc, env)
                        pairs.append(Pair(fi, n, P.raise_node, n, cs[0] if cs and len(cs) == 1 else ("|".join(cs) if cs else None), code,
                                          "helper call", helper=False, exc_classes=cs, via_helper=H.qname))
        finally:
            busy.discard(fi.qname)
    orphans = []
    for n in ast.walk(fi.node):
        if isinstance(n, ast.Raise) and id(n) not in used and rule_raise(n):
            orphans.append(n)
        if isinstance(n, ast.Call) and id(n) not in used and isinstance(n.func, ast.Attribute) and n.func.attr in ("append", "extend", "insert") \
                and isinstance(n.func.value, ast.Name) and n.func.value.id == mp:
            orphans.append(n)
    return pairs, orphans
