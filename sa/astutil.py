"""Small AST utilities shared by rules."""
from __future__ import annotations

import ast
import copy
from dataclasses import replace

from .model import FuncInfo


def with_aliases_resolved(fi: FuncInfo, attrs=None) -> FuncInfo:
    """copy of ``fi`` in which every local bound exactly once to an attribute chain of a parameter (``own = self._nsmap``)
    is replaced by that chain.  The caller is responsible for knowing that the chain keeps denoting the same object
    (use for fields the function under analysis does not re-bind on that receiver)."""
    node = copy.deepcopy(fi.node)
    params = {a.arg for a in node.args.posonlyargs + node.args.args + node.args.kwonlyargs}
    stores = {}
    for n in ast.walk(node):
        if isinstance(n, ast.Name) and isinstance(n.ctx, (ast.Store, ast.Del)):
            stores[n.id] = stores.get(n.id, 0) + 1
    subst = {}
    for n in ast.walk(node):
        if isinstance(n, ast.Assign) and len(n.targets) == 1 and isinstance(n.targets[0], ast.Name) and isinstance(n.value, ast.Attribute):
            x = n.targets[0].id
            e = n.value
            chain = []
            while isinstance(e, ast.Attribute):
                chain.append(e.attr)
                e = e.value
            if isinstance(e, ast.Name) and e.id in params and stores.get(e.id, 0) == 0 and stores.get(x) == 1 and x not in params \
                    and (attrs is None or chain[0].lstrip("_") in attrs):
                subst[x] = (n, n.value)
    if not subst:
        return fi

    class R(ast.NodeTransformer):
        def visit_Name(self, n):
            if isinstance(n.ctx, ast.Load) and n.id in subst:
                return ast.copy_location(copy.deepcopy(subst[n.id][1]), n)
            return n

        def visit_Assign(self, n):
            if any(n is a for a, _ in subst.values()):
                return ast.copy_location(ast.Pass(), n)
            return self.generic_visit(n)
    node = R().visit(node)
    ast.fix_missing_locations(node)
    return replace(fi, node=node)


def enum_aliases(prog, ci):
    """[(member, earlier member with the same value)] for an Enum class whose members are bound to constant values:
    a repeated value makes the later name an alias of the earlier member (the two codes cannot be told apart)"""
    seen = {}
    out = []
    for b in ci.node.body:
        if isinstance(b, ast.Assign) and len(b.targets) == 1 and isinstance(b.targets[0], ast.Name):
            v = b.value
            if isinstance(v, ast.Call):
                continue  # auto(): distinct by construction
            try:
                c = prog.const(ci.module, v)
            except Exception:
                continue
            if isinstance(c, (int, str, float, tuple)) and not isinstance(c, bool):
                key = (type(c).__name__, c)
                if key in seen:
                    out.append((b.targets[0].id, seen[key]))
                else:
                    seen[key] = b.targets[0].id
    return out
