"""Small AST utilities shared by rules."""
from __future__ import annotations

import ast
import copy
from dataclasses import replace

from .model import FuncInfo, norm


def with_aliases_resolved(fi: FuncInfo, attrs=None) -> FuncInfo:
    """copy of ``fi`` in which every local bound exactly once to an attribute chain of a parameter (``own = self._nsmap``)
    is replaced by that chain.  The caller is responsible for knowing that the chain keeps denoting the same object
    (use for fields the function under analysis does not re-bind on that receiver)."""
    node = copy.deepcopy(fi.node)
    params = {a.arg for a in node.args.posonlyargs + node.args.args + node.args.kwonlyargs}
    stores = {}
    for n in ast.walk(node):
        if isinstance(n, ast.Name) and isinstance(n.ctx, (ast.Store, ast.Del)):
            stores[n.id] = stores.get(n.id, 0) + 1
    subst = {}
    for n in ast.walk(node):
        if isinstance(n, ast.Assign) and len(n.targets) == 1 and isinstance(n.targets[0], ast.Name) and isinstance(n.value, ast.Attribute):
            x = n.targets[0].id
            e = n.value
            chain = []
            while isinstance(e, ast.Attribute):
                chain.append(e.attr)
                e = e.value
            if isinstance(e, ast.Name) and e.id in params and stores.get(e.id, 0) == 0 and stores.get(x) == 1 and x not in params \
                    and (attrs is None or chain[0].lstrip("_") in attrs):
                subst[x] = (n, n.value)
    if not subst:
        return fi

    class R(ast.NodeTransformer):
        def visit_Name(self, n):
            if isinstance(n.ctx, ast.Load) and n.id in subst:
                return ast.copy_location(copy.deepcopy(subst[n.id][1]), n)
            return n

        def visit_Assign(self, n):
            if any(n is a for a, _ in subst.values()):
                return ast.copy_location(ast.Pass(), n)
            return self.generic_visit(n)
    node = R().visit(node)
    ast.fix_missing_locations(node)
    return replace(fi, node=node)


def enum_aliases(prog, ci):
    """[(member, earlier member with the same value)] for an Enum class whose members are bound to constant values:
    a repeated value makes the later name an alias of the earlier member (the two codes cannot be told apart)"""
    seen = {}
    out = []
    for b in ci.node.body:
        if isinstance(b, ast.Assign) and len(b.targets) == 1 and isinstance(b.targets[0], ast.Name):
            v = b.value
            if isinstance(v, ast.Call):
                continue  # auto(): distinct by construction
            try:
                c = prog.const(ci.module, v)
            except Exception:
                continue
            if isinstance(c, (int, str, float, tuple)) and not isinstance(c, bool):
                key = (type(c).__name__, c)
                if key in seen:
                    out.append((b.targets[0].id, seen[key]))
                else:
                    seen[key] = b.targets[0].id
    return out


def as_dict_literal(prog, mi, e, depth=0):
    """the dict literal a module-level table expression denotes: a dict display, dict(<sequence of pairs>), a name bound once
    to one of those, or a dict comprehension `{k: v for k, v in <sequence of pairs>}`"""
    if e is None or depth > 4:
        return e
    if isinstance(e, ast.Dict) and not any(k is None for k in e.keys):
        return e
    if isinstance(e, ast.Name) and mi.const_multi.get(e.id, 0) == 1:
        return as_dict_literal(prog, mi, mi.consts.get(e.id), depth + 1)
    if isinstance(e, ast.BinOp) and isinstance(e.op, ast.BitOr):
        # A | B of two dict displays: the entries of A, then those of B (a later key replaces an earlier one, as in a display)
        a, b = as_dict_literal(prog, mi, e.left, depth + 1), as_dict_literal(prog, mi, e.right, depth + 1)
        if isinstance(a, ast.Dict) and isinstance(b, ast.Dict):
            return ast.copy_location(ast.Dict(keys=list(a.keys) + list(b.keys), values=list(a.values) + list(b.values)), e)
    if isinstance(e, ast.Dict) and any(k is None for k in e.keys):
        # {**A, **B, k: v}
        keys, vals = [], []
        for k, v in zip(e.keys, e.values):
            if k is None:
                sub = as_dict_literal(prog, mi, v, depth + 1)
                if not isinstance(sub, ast.Dict) or any(x is None for x in sub.keys):
                    return e
                keys += list(sub.keys)
                vals += list(sub.values)
            else:
                keys.append(k)
                vals.append(v)
        return ast.copy_location(ast.Dict(keys=keys, values=vals), e)
    seq = None
    if isinstance(e, ast.Call) and isinstance(e.func, ast.Name) and e.func.id == "dict" and len(e.args) == 1 and not e.keywords:
        seq = e.args[0]
    if isinstance(e, ast.DictComp) and len(e.generators) == 1 and not e.generators[0].ifs and isinstance(e.generators[0].target, ast.Tuple) \
            and len(e.generators[0].target.elts) == 2 and norm(e.key) == norm(e.generators[0].target.elts[0]) and norm(e.value) == norm(e.generators[0].target.elts[1]):
        seq = e.generators[0].iter
    if seq is not None:
        if isinstance(seq, ast.Name) and mi.const_multi.get(seq.id, 0) == 1:
            seq = mi.consts.get(seq.id)
        if isinstance(seq, (ast.Tuple, ast.List)) and all(isinstance(p_, (ast.Tuple, ast.List)) and len(p_.elts) == 2 for p_ in seq.elts):
            d = ast.Dict(keys=[p_.elts[0] for p_ in seq.elts], values=[p_.elts[1] for p_ in seq.elts])
            return ast.copy_location(d, e)
    return e




# which property's check reports a changed default of which function (first match wins; prefix of the qualified name)
SIG_OWNERS = [
    ("metapype.eml.validate.prune", "C15"), ("metapype.eml.validate.tree", "C05"), ("metapype.eml.validate.node", "C04"),
    ("metapype.eml.rule.Rule._validate", "C04"), ("metapype.eml.rule.Rule.is_", "C02"), ("metapype.eml.rule.", "C04"),
    ("metapype.eml.references.", "C16"), ("metapype.eml.evaluate.", "C19"), ("metapype.eml.export.", "C07"),
    ("metapype.model.node.Node.shift", "C09"), ("metapype.model.node.Node.add_child", "C09"), ("metapype.model.node.Node.remove_child", "C09"),
    ("metapype.model.node.Node.replace_child", "C14"), ("metapype.model.node.Node.delete_node_instance", "C14"), ("metapype.model.node.Node.remove_children", "C14"),
    ("metapype.model.node.Node.set_nsmap", "C13"), ("metapype.model.node.Node.add_namespace", "C13"), ("metapype.model.node.Node.remove_namespace", "C13"),
    ("metapype.model.node.Node.fix_nsmap", "C13"), ("metapype.model.node.Node.copy", "C12"), ("metapype.model.node.Node.is_equal", "C18"),
    ("metapype.model.node.Node.__init__", "C06"), ("metapype.model.node.Node.find_", "C09"), ("metapype.model.node.Node.", "C09"),
    ("metapype.model.metapype_io.to_xml", "C07"), ("metapype.model.metapype_io.from_xml", "C08"), ("metapype.model.metapype_io._process_element", "C08"),
    ("metapype.model.metapype_io.", "C06"), ("metapype.model.mp_io.", "C06"), ("utils.convert.", "C06"),
]


def changed_defaults(prog):
    """[(FuncInfo, parameter, baseline default, current default, owner property)] for every baseline function whose parameter
    default differs from the pinned tree's (same position; a renamed parameter keeps its position)"""
    from .normalize import load_baseline_funcs
    base = load_baseline_funcs()
    out = []
    for q, fp in base.items():
        fi = prog.funcs.get(q)
        if fi is None or "defaults" not in fp:
            continue
        a = fi.node.args
        pos = a.posonlyargs + a.args
        cur = [None] * (len(pos) - len(a.defaults)) + [ast.unparse(d) for d in a.defaults]
        cur += [ast.unparse(d) if d is not None else None for d in a.kw_defaults]
        names_ = [x.arg for x in pos + a.kwonlyargs]
        for i, old in enumerate(fp["defaults"]):
            if i >= len(cur):
                break
            new = cur[i]
            if old != new and not (old is not None and new is not None and _same_const(prog, fi, old, new)):
                owner = next((p_ for pre, p_ in SIG_OWNERS if q.startswith(pre)), None)
                out.append((fi, names_[i] if i < len(names_) else f"#{i}", old, new, owner))
    return out


def _same_const(prog, fi, old, new):
    try:
        a = prog.const(fi.module, ast.parse(old, mode="eval").body)
        b = prog.const(fi.module, ast.parse(new, mode="eval").body)
    except Exception:
        return False
    return a == b and type(a) is type(b) and not (a is None and old != "None" and new != "None") and repr(a) != "UNKNOWN"


def fold_local(prog, fi, e):
    """prog.const, extended by locals of ``fi`` that are bound exactly once, by a plain assignment, to an expression that folds
    (a hoisted entity table, a bound, a format string): the value such a local stands for wherever it is read"""
    from .model import UNKNOWN
    v = prog.const(fi.module, e)
    if v is not UNKNOWN or fi.node is None:
        return v
    names = {x.id for x in ast.walk(e) if isinstance(x, ast.Name)}
    local = {}
    for nm_ in names:
        if nm_ in fi.params:
            continue
        stores = [x for x in ast.walk(fi.node) if isinstance(x, ast.Name) and x.id == nm_ and isinstance(x.ctx, (ast.Store, ast.Del))]
        if len(stores) != 1:
            continue
        for a in ast.walk(fi.node):
            if isinstance(a, ast.Assign) and len(a.targets) == 1 and a.targets[0] is stores[0]:
                # nothing mutates it either (no method call on it, no subscript store)
                mutated = any((isinstance(c, ast.Call) and isinstance(c.func, ast.Attribute) and isinstance(c.func.value, ast.Name) and c.func.value.id == nm_
                               and c.func.attr in ("update", "setdefault", "pop", "popitem", "clear", "append", "extend", "insert", "remove", "add", "discard", "sort", "reverse"))
                              or (isinstance(c, (ast.Subscript,)) and isinstance(c.ctx, (ast.Store, ast.Del)) and isinstance(c.value, ast.Name) and c.value.id == nm_)
                              or (isinstance(c, ast.AugAssign) and isinstance(c.target, ast.Name) and c.target.id == nm_)
                              for c in ast.walk(fi.node))
                if not mutated:
                    lv = prog.const(fi.module, a.value)
                    if lv is not UNKNOWN:
                        local[nm_] = lv
    if not local:
        return v
    return prog.const(fi.module, e, local)
