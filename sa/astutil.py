"""Small AST utilities shared by rules."""
from __future__ import annotations

import ast
import copy
from dataclasses import replace

from .model import FuncInfo, norm


def with_aliases_resolved(fi: FuncInfo, attrs=None) -> FuncInfo:
    """copy of ``fi`` in which every local bound exactly once to an attribute chain of a parameter (``own = self._nsmap``)
    is replaced by that chain.  The caller is responsible for knowing that the chain keeps denoting the same object
    (use for fields the function under analysis does not re-bind on that receiver)."""
    node = copy.deepcopy(fi.node)
    params = {a.arg for a in node.args.posonlyargs + node.args.args + node.args.kwonlyargs}
    stores = {}
    for n in ast.walk(node):
        if isinstance(n, ast.Name) and isinstance(n.ctx, (ast.Store, ast.Del)):
            stores[n.id] = stores.get(n.id, 0) + 1
    subst = {}
    for n in ast.walk(node):
        if isinstance(n, ast.Assign) and len(n.targets) == 1 and isinstance(n.targets[0], ast.Name) and isinstance(n.value, ast.Attribute):
            x = n.targets[0].id
            e = n.value
            chain = []
            while isinstance(e, ast.Attribute):
                chain.append(e.attr)
                e = e.value
            if isinstance(e, ast.Name) and e.id in params and stores.get(e.id, 0) == 0 and stores.get(x) == 1 and x not in params \
                    and (attrs is None or chain[0].lstrip("_") in attrs):
                subst[x] = (n, n.value)
    if not subst:
        return fi

    class R(ast.NodeTransformer):
        def visit_Name(self, n):
            if isinstance(n.ctx, ast.Load) and n.id in subst:
                return ast.copy_location(copy.deepcopy(subst[n.id][1]), n)
            return n

        def visit_Assign(self, n):
            if any(n is a for a, _ in subst.values()):
                return ast.copy_location(ast.Pass(), n)
            return self.generic_visit(n)
    node = R().visit(node)
    ast.fix_missing_locations(node)
    return replace(fi, node=node)


def enum_aliases(prog, ci):
    """[(member, earlier member with the same value)] for an Enum class whose members are bound to constant values:
    a repeated value makes the later name an alias of the earlier member (the two codes cannot be told apart)"""
    seen = {}
    out = []
    for b in ci.node.body:
        if isinstance(b, ast.Assign) and len(b.targets) == 1 and isinstance(b.targets[0], ast.Name):
            v = b.value
            if isinstance(v, ast.Call):
                continue  # auto(): distinct by construction
            try:
                c = prog.const(ci.module, v)
            except Exception:
                continue
            if isinstance(c, (int, str, float, tuple)) and not isinstance(c, bool):
                key = (type(c).__name__, c)
                if key in seen:
                    out.append((b.targets[0].id, seen[key]))
                else:
                    seen[key] = b.targets[0].id
    return out


def as_dict_literal(prog, mi, e, depth=0):
    """the dict literal a module-level table expression denotes: a dict display, dict(<sequence of pairs>), a name bound once
    to one of those, or a dict comprehension `{k: v for k, v in <sequence of pairs>}`"""
    if e is None or depth > 4:
        return e
    if isinstance(e, ast.Dict):
        return e
    if isinstance(e, ast.Name) and mi.const_multi.get(e.id, 0) == 1:
        return as_dict_literal(prog, mi, mi.consts.get(e.id), depth + 1)
    seq = None
    if isinstance(e, ast.Call) and isinstance(e.func, ast.Name) and e.func.id == "dict" and len(e.args) == 1 and not e.keywords:
        seq = e.args[0]
    if isinstance(e, ast.DictComp) and len(e.generators) == 1 and not e.generators[0].ifs and isinstance(e.generators[0].target, ast.Tuple) \
            and len(e.generators[0].target.elts) == 2 and norm(e.key) == norm(e.generators[0].target.elts[0]) and norm(e.value) == norm(e.generators[0].target.elts[1]):
        seq = e.generators[0].iter
    if seq is not None:
        if isinstance(seq, ast.Name) and mi.const_multi.get(seq.id, 0) == 1:
            seq = mi.consts.get(seq.id)
        if isinstance(seq, (ast.Tuple, ast.List)) and all(isinstance(p_, (ast.Tuple, ast.List)) and len(p_.elts) == 2 for p_ in seq.elts):
            d = ast.Dict(keys=[p_.elts[0] for p_ in seq.elts], values=[p_.elts[1] for p_ in seq.elts])
            return ast.copy_location(d, e)
    return e


