"""Guard facts (E2) -- representation, meet, kill and arithmetic helpers.

A state is a frozenset of fact tuples; every fact is a *must* fact (holds on
every path to the point).  Kinds:
  ('nn', p)            p is not None
  ('none', p)          p is None
  ('ub', i, L, k)      i + k <= len(L)
  ('lb', i, c)         i >= c
  ('rub', x, L, k)     every element e of the iterable x: e + k <= len(L);   ('rlb', x, c)  every element e >= c
  ('inv', i, L)        0 <= i <= len(L)                (cursor invariant)
  ('lenge', L, n)      len(L) >= n
  ('eqlen', A, B)      len(A) == len(B)
  ('haskey', d, k)     k in d
  ('parses', T, p)     T(p) completes normally
  ('conv', T, p)       T(p) has completed normally on this path (predicate derivation)
  ('member', x, L)     x in L
  ('snap', S, L)       S is an order-preserving snapshot of L taken earlier
  ('desc', x)          x was obtained by descent in a tree: x.parent is not None and lists x
  ('reg', x)           x is registered in Node.store under x._id
  ('known', p)         p is a key of node_mappings
  ('rulekey', p)       p is a key of rules.json
  ('alias', v, p)      v and p denote the same value
  ('falsy', v)         v is falsy
  ('imp', v, F)        v truthy  =>  fact F
  ('isstr', p)         type(p) is str
"""
from __future__ import annotations

import ast
from typing import FrozenSet, Iterable, Optional, Tuple

State = FrozenSet[tuple]

MINK = {"ub": 3, "lb": 2, "lenge": 2, "rub": 3, "rlb": 2}  # position of the numeric component that meets by min


def paths_of(f: tuple):
    k = f[0]
    if k in ("nn", "none", "desc", "listed", "reg", "known", "rulekey", "falsy", "isstr"):
        return (f[1],)
    if k in ("ub", "rub"):
        return (f[1], f[2])
    if k == "rlb":
        return (f[1],)
    if k in ("lb", "eqc"):
        return (f[1],)
    if k in ("inv", "eqlen", "haskey", "member", "snap", "alias", "islen"):
        return (f[1], f[2])
    if k in ("lenge",):
        return (f[1],)
    if k in ("parses", "conv"):
        return (f[2],)
    if k == "elem":
        return (f[1],)
    if k in ("clsval", "constval"):
        return (f[1],)
    if k == "elemall":
        return (f[1],)
    if k == "imp":
        return (f[1],) + paths_of(f[2])
    return tuple(x for x in f[1:] if isinstance(x, str))


def mentions(f: tuple, p: str) -> bool:
    for q in paths_of(f):
        if q.startswith("#"):
            continue
        if q == p or q.startswith(p + ".") or q.startswith(p + "["):
            return True
    return False


def mentions_field(f: tuple, field: str) -> bool:
    for q in paths_of(f):
        parts = q.split(".")
        if field in parts[1:]:
            return True
    return False


def kill_path(st: State, p: str) -> State:
    return frozenset(f for f in st if not mentions(f, p))


def kill_fields(st: State, fields: Iterable[str]) -> State:
    fs = set(fields)
    if not fs:
        return st
    out = []
    for f in st:
        if any(mentions_field(f, x) for x in fs):
            continue
        out.append(f)
    return frozenset(out)


def meet(a: State, b: State) -> State:
    if a == b:
        return a
    out = set(a & b)
    # numeric facts: keep the weaker bound
    def numeric(s):
        d = {}
        for f in s:
            k = f[0]
            if k in MINK:
                key = f[:MINK[k]]
                d[key] = min(d.get(key, f[MINK[k]]), f[MINK[k]]) if key in d else f[MINK[k]]
        return d
    na, nb = numeric(a), numeric(b)
    for key, va in na.items():
        if key in nb:
            out.add(key + (min(va, nb[key]),))
    # numeric bounds of a variable survive a join with a path on which the variable is None: they read "if it is a number,
    # then ..." (a None index / operand is a TypeError, which the nullable-use rule reports on its own)
    none_a = {f[1] for f in a if f[0] == "none"}
    none_b = {f[1] for f in b if f[0] == "none"}
    for f in a:
        if f[0] in ("ub", "lb") and f[1] in none_b:
            out.add(f)
    for f in b:
        if f[0] in ("ub", "lb") and f[1] in none_a:
            out.add(f)
    # implication facts survive a branch on which the variable is falsy
    # element facts of a local list of tuples: an empty list satisfies all of them
    ea = {f[1] for f in a if f[0] == "elemall"}
    eb = {f[1] for f in b if f[0] == "elemall"}
    for f in a:
        if f[0] == "elem" and f[1] in eb:
            out.add(f)
    for f in b:
        if f[0] == "elem" and f[1] in ea:
            out.add(f)
    fa = {f[1] for f in a if f[0] == "falsy"}
    fb = {f[1] for f in b if f[0] == "falsy"}
    for f in a:
        if f[0] == "imp" and f[1] in fb:
            out.add(f)
    for f in b:
        if f[0] == "imp" and f[1] in fa:
            out.add(f)
    return frozenset(out)


def best(st: State, kind: str, *key) -> Optional[int]:
    """strongest numeric bound recorded for the key"""
    pos = MINK[kind]
    vals = [f[pos] for f in st if f[0] == kind and f[1:pos] == tuple(key)]
    return max(vals) if vals else None


def add(st: State, *facts) -> State:
    extra = [("listed", f[1]) for f in facts if f and f[0] == "desc"]
    return st | frozenset(facts) | frozenset(extra)


def has(st: State, f: tuple) -> bool:
    return f in st


# ---------------------------------------------------------------- linear terms
def is_len_call(e) -> Optional[ast.expr]:
    if isinstance(e, ast.Call) and isinstance(e.func, ast.Name) and e.func.id == "len" and len(e.args) == 1 and not e.keywords:
        return e.args[0]
    return None
