"""Driver:  /venv/bin/python -m sa.check <ID> [--tier quick|thorough] [--only RULE]

exit 0  every rule instance held (known findings printed, never silently)
exit 1  at least one finding not listed in known_findings.json
exit 2  ANALYSIS-ERROR (parse failure, vanished anchor, floor not met, failed self-test)
"""
from __future__ import annotations

import argparse
import importlib
import json
import os
import sys
import time
import traceback

from .core import VERIF, Report, known_match, load_known
from .model import AnalysisError, Program

PROPS = ["C01", "C02", "C03", "C04", "C05", "C06", "C07", "C08", "C09", "C10",
         "C11", "C12", "C13", "C14", "C15", "C16", "C18", "C19"]


class Ctx:
    def __init__(self, tier: str, root=None):
        self.tier = tier
        self.root = root or os.environ.get("SA_REPO", "/repo")
        self.prog = Program(self.root, wide=(tier == "thorough"))
        self.normalisation = {}
        if not os.environ.get("SA_NO_NORMALIZE"):
            # E9: dissolve helpers that are not part of the pinned tree into their callers (sa/normalize.py)
            from .normalize import normalize_program, recover_renames
            from .types import World
            from .normalize import recover_moves
            rtrees, renames = recover_renames(self.prog)
            if rtrees is not None:
                self.prog = Program(self.root, wide=(tier == "thorough"), trees=rtrees)
            moved = recover_moves(self.prog, set(renames.values()))
            if moved:
                self.prog = Program(self.root, wide=(tier == "thorough"), trees=rtrees, moved=moved)
            trees, self.normalisation = normalize_program(self.prog, World(self.prog))
            if self.normalisation.get("dissolved"):
                self.prog = Program(self.root, wide=(tier == "thorough"), trees=trees, moved=moved)
            if renames:
                self.normalisation["renames_recovered"] = renames
            if moved:
                self.normalisation["moves_recovered"] = {f"{k[0]}.{k[1]}": v["q"] for k, v in moved.items()}
        self._world = None
        self._hier = None
        self._tables = None
        self.cache = {}

    @property
    def world(self):
        if self._world is None:
            from .types import World
            self._world = World(self.prog)
        return self._world

    @property
    def hier(self):
        if self._hier is None:
            from .exc import Hierarchy
            self._hier = Hierarchy(self.prog)
        return self._hier

    @property
    def tables(self):
        if self._tables is None:
            from .tables import Tables
            self._tables = Tables(self.prog)
        return self._tables

    def get(self, key, make):
        if key not in self.cache:
            self.cache[key] = make()
        return self.cache[key]


def settle(mod, rep):
    """Structural rules look at the shape of the code; where the same behaviour is also decided by a fold rule (the function folded over
    every class of input the rule's claim is about, sa/peval.py), a structural rule that merely does not *recognise* a re-shaped function
    must not raise an alarm.  A module lists such pairs in SUBORDINATE = {structural rule: fold rule} and describes its fold rules in
    FOLDS = {rule: {"count": instance kind, "min": verdicts expected, "about": substrings naming its subjects in 'not folded' notes}}.
    When the fold rule decided all of its worlds and reported nothing, findings and analysis errors of the subordinate rule become notes
    (listed in the evidence under `stood_in`); in every other case they stand.  Returns the set of rules stood in for."""
    folds = getattr(mod, "FOLDS", {})
    sub = getattr(mod, "SUBORDINATE", {})
    clean = {}
    known = load_known()
    for r, d in folds.items():
        skipped = [n for n in rep.notes if "not folded" in n and (not d.get("about") or any(a in n for a in d["about"]))]
        # a listed known finding of the fold rule (a defect of the library recorded in known_findings.json) is not news about the code under analysis
        clean[r] = rep.instances.get(d["count"], 0) >= d["min"] and not skipped and not any(f.rule == r and known_match(known, f) is None for f in rep.findings) \
            and r not in getattr(rep, "rule_errors", {})
    stood_in = set()
    kept = []
    for f in rep.findings:
        fr = sub.get(f.rule)
        if fr is not None and clean.get(fr):
            stood_in.add(f.rule)
            rep.notes.append(f"{rep.prop}-{f.rule} does not recognise the shape of {f.where} ({str(f.construct)[:60]}): {f.reason[:160]} -- not reported: "
                             f"{rep.prop}-{fr} folded this function over all of its worlds and found it behaving as the property says")
        else:
            kept.append(f)
    rep.findings[:] = kept
    for r, msg in list(getattr(rep, "rule_errors", {}).items()):
        fr = sub.get(r)
        if fr is not None and clean.get(fr):
            stood_in.add(r)
            rep.notes.append(f"{rep.prop}-{r} could not read the code ({msg[:200]}) -- not an analysis error: {rep.prop}-{fr} decided the behaviour")
        elif fr is not None and kept:
            # the run already reports a violation; that a shape rule could not read the same code adds nothing to it
            rep.notes.append(f"{rep.prop}-{r} could not read the code ({msg[:200]})")
        else:
            raise AnalysisError(msg)
    if stood_in:
        rep.extra["stood_in"] = {r: sub[r] for r in sorted(stood_in)}
    return lambda rule: bool(sub.get(rule) and clean.get(sub[rule]))


def run_property(pid: str, tier: str, only=None, root=None, selftest=True) -> Report:
    ctx = Ctx(tier, root)
    mod = importlib.import_module(f"sa.props.{pid.lower()}")
    rep = Report(pid)
    rep.normalisation = ctx.normalisation
    rep.only = only
    mod.run(ctx, rep)
    if only in (None, "SIG"):
        # shared rule SIG: the default of a parameter is part of what a call without that argument means; a changed default of a
        # function this property is anchored in changes the behaviour of every caller that relies on it
        from .astutil import changed_defaults
        n_sig = 0
        for (f_, pname, old, new, owner) in changed_defaults(ctx.prog):
            if owner != pid:
                continue
            n_sig += 1
            rep.add("SIG", f_.qname, f"{pname}={new}", f"the default of parameter `{pname}` was `{old}` and is now `{new}`: every call that leaves it out "
                    f"now behaves differently", f_.loc())
        if "SIG" not in rep.rules_run:
            rep.rules_run.append("SIG")
    can_stand_in = settle(mod, rep)
    if not rep.findings:
        rep.check_floors(stands_in=can_stand_in)  # anti-vacuity; a run that already reports findings is not a vacuous pass
    rep.extra["call_resolution"] = dict(ctx.world.call_stats)
    if ctx.world.unresolved_sites:
        rep.extra["unresolved_call_sites"] = sorted(set(ctx.world.unresolved_sites))[:40]
    return rep


def write_evidence(rep: Report, tier: str, wall: float, violations: int, known_matched, selftest=None):
    os.makedirs(os.path.join(VERIF, "evidence"), exist_ok=True)
    cov = {
        "explanation": rep.explanation or f"static rules {', '.join(rep.rules_run)} over the working tree of /repo",
        "evaluations": max(sum(rep.instances.values()), rep.obligations, len(rep.nontrivial)),
        "distinct_nontrivial": len(rep.nontrivial),
        "rule": ("cases are rule instances (sites, table rows, entry points) enumerated from the AST of the working tree; "
                 "an instance is non-trivial when it carries an obligation that has to be discharged by a fact, "
                 "a handler, a pairing or a table lookup (not a bare syntactic match); distinct by normalised construct"),
        "samples": rep.samples[:40] or ["(no instance sampled)"],
        "obligations": rep.obligations,
        "discharged": rep.discharged,
        "normalisation": getattr(rep, "normalisation", None) or {"dissolved": {}, "note": "no helper outside the baseline name table in this tree"},
        "checker_cmd": f"/venv/bin/python -m sa.check {rep.prop} --tier {tier}",
        "trusted_base": ["CPython ast module (parser)", "the /verif/sa analysis code",
                         "table of partial operations and assumed-total externals (DESIGN.md 2.4)"],
        "exhaustive": bool(rep.exhaustive),
        "rules_run": rep.rules_run,
        "instances": rep.instances,
        "floors": rep.floors,
        "files": sorted(rep.files),
        "functions": sorted(rep.functions),
        "assumed_total": sorted(rep.assumed_total),
        "notes": rep.notes[:60],
        "known_findings_matched": known_matched,
        "findings": [f.line() for f in rep.findings],
    }
    cov.update(rep.extra)
    if selftest is not None:
        cov.update(selftest)
    ev = {
        "property_id": rep.prop,
        "tier": tier,
        "seed": int(os.environ.get("VERIF_SEED", "0") or 0),
        "level": "other",
        "coverage": cov,
        "assumptions": rep.assumptions,
        "wall_s": round(wall, 3),
        "violations": violations,
    }
    path = os.path.join(VERIF, "evidence", f"{rep.prop}.json")
    tmp = path + ".tmp"
    with open(tmp, "w", encoding="utf-8") as f:
        json.dump(ev, f, indent=1, default=str)
    os.replace(tmp, path)
    return path


def main(argv=None):
    ap = argparse.ArgumentParser()
    ap.add_argument("prop")
    ap.add_argument("--tier", default=os.environ.get("VERIF_TIER", "quick"), choices=["quick", "thorough"])
    ap.add_argument("--only", default=None)
    ap.add_argument("--root", default=None)
    ap.add_argument("--no-evidence", action="store_true")
    ap.add_argument("--no-selftest", action="store_true")
    args = ap.parse_args(argv)
    pid = args.prop.upper()
    t0 = time.time()
    try:
        if pid not in PROPS:
            raise AnalysisError(f"no check for {pid}")
        rep = run_property(pid, args.tier, args.only, args.root)
        st = None
        if args.tier == "thorough" and not args.no_selftest and not args.root:
            from . import selftest
            st = selftest.run_for(pid)
            if st.get("selftest_failed"):
                raise AnalysisError(f"self-test of {pid} failed: {st['selftest_failed'][:5]}")
    except AnalysisError as e:
        print(f"ANALYSIS-ERROR property={pid} {e}")
        return 2
    except Exception as e:  # a crash of the checker is never a verdict
        traceback.print_exc()
        print(f"ANALYSIS-ERROR property={pid} checker crashed: {type(e).__name__}: {e}")
        return 2
    known = load_known()
    new, matched = [], []
    for f in rep.findings:
        k = known_match(known, f)
        if k is not None:
            matched.append(f"{f.prop}-{f.rule} {f.where} `{f.construct}`")
            print(f"KNOWN-FINDING: property={pid} {f.rule} {f.where} `{f.construct}` -- {k.get('what', f.reason)}")
        else:
            new.append(f)
    wall = time.time() - t0
    print(f"{pid}: rules {', '.join(rep.rules_run)}; instances {json.dumps(rep.instances, sort_keys=True)}; "
          f"obligations {rep.obligations} discharged {rep.discharged}; "
          f"{len(rep.functions)} functions in {len(rep.files)} files; {wall:.2f}s")
    if not args.no_evidence and not args.root:
        write_evidence(rep, args.tier, wall, len(new), matched, st)
    if new:
        os.makedirs(os.path.join(VERIF, "evidence", "replay"), exist_ok=True)
        for i, f in enumerate(new):
            rp = os.path.join(VERIF, "evidence", "replay", f"{pid}-{i}.json")
            if not args.root:
                with open(rp, "w", encoding="utf-8") as fh:
                    json.dump({"property": pid, "rule": f.rule, "where": f.where, "construct": f.construct,
                               "reason": f.reason, "loc": f.loc, "path": f.path,
                               "rerun": f"/venv/bin/python -m sa.check {pid} --only {f.rule}"}, fh, indent=1)
            print(f"VIOLATION property={pid} replay={rp}")
            print("  " + f.line())
        return 1
    return 0


if __name__ == "__main__":
    sys.exit(main())
