"""Catalogue of single edits for the live-rule self-test (thorough tier).
kind 'break': the property's check must exit 1 (and name ``rule`` when given);
kind 'twin' : a behaviour-preserving rewrite, the check must stay silent.
Edits are textual replacements that must match exactly once in the *current*
/repo file; an edit that no longer matches is skipped, not failed."""

RULE = "src/metapype/eml/rule.py"
NODE = "src/metapype/model/node.py"
VAL = "src/metapype/eml/validate.py"
MIO = "src/metapype/model/metapype_io.py"
MPIO = "src/metapype/model/mp_io.py"
EXP = "src/metapype/eml/export.py"
REF = "src/metapype/eml/references.py"
EVA = "src/metapype/eml/evaluate.py"
CONV = "utils/convert.py"


def E(prop, name, kind, file, old, new, rule=None):
    return {"prop": prop, "name": name, "kind": kind, "file": file, "old": old, "new": new, "rule": rule}


CATALOGUE = [
    # ------------------------------------------------------------------ C01
    E("C01", "cursor read after advance", "break", RULE, "exceeded for child '{rule_child_name}' in parent",
      "exceeded for child '{self._node_children_names[self._node_index]}' in parent", "R1"),
    E("C01", "choice minimum off by one", "break", RULE, "if choice_occurrence < choice_min and not is_mixed_content:",
      "if choice_occurrence <= choice_min and not is_mixed_content:", "R6"),
    E("C01", "waiver dropped", "break", RULE, "if choice_occurrence < choice_min and not is_mixed_content:", "if choice_occurrence < choice_min:", "R4"),
    E("C01", "unbounded maximum compared", "break", RULE, "if rule_child_max is not INFINITY and occurrence > rule_child_max:", "if occurrence > rule_child_max:"),
    E("C01", "trailing check skipped for childless rules", "break", RULE, "            if self._node_index != len(self._node_children_names):",
      "            if self._children and self._node_index != len(self._node_children_names):", "R3"),
    E("C01", "flag replaced by a constant", "break", RULE, "                        self._validate_sequence(rule_child, is_mixed_content, errs)",
      "                        self._validate_sequence(rule_child, False, errs)", "R4"),
    E("C01", "min read from the max slot", "break", RULE, "        rule_child_min = rule_child[-2]", "        rule_child_min = rule_child[-1]", "R5"),
    E("C01", "sweep over a prefix", "break", RULE, "            for node_child_name in self._node_children_names:\n                if not self.is_allowed_child(node_child_name):",
      "            for node_child_name in self._node_children_names[:1]:\n                if not self.is_allowed_child(node_child_name):", "R3"),
    E("C01", "twin: trailing check rewritten", "twin", RULE, "            if self._node_index != len(self._node_children_names):",
      "            if not (len(self._node_children_names) == self._node_index):"),
    E("C01", "twin: trailing check with <", "twin", RULE, "            if self._node_index != len(self._node_children_names):",
      "            if self._node_index < len(self._node_children_names):"),
    E("C01", "twin: length hoisted into a local", "twin", RULE,
      "        while (\n                self._node_index < len(self._node_children_names) and\n                rule_child_name == self._node_children_names[self._node_index]\n        ):",
      "        n_names = len(self._node_children_names)\n        while (\n                self._node_index < n_names and\n                rule_child_name == self._node_children_names[self._node_index]\n        ):"),
    # ------------------------------------------------------------------ C02
    E("C02", "EW range swapped for NS", "break", RULE, "self._validate_float_range_content(node, (-180.0, 180.0), errs)",
      "self._validate_float_range_content(node, (-90.0, 90.0), errs)", "R4"),
    E("C02", "open lower bound", "break", RULE, "            if not (minmax[0] <= float_val <= minmax[1]):", "            if not (minmax[0] < float_val <= minmax[1]):", "R4"),
    E("C02", "NaN-accepting range test", "break", RULE, "            if not (minmax[0] <= float_val <= minmax[1]):",
      "            if float_val < minmax[0] or float_val > minmax[1]:", "R4"),
    E("C02", "time arm calls the date checker", "break", RULE,
      '            elif content_rule == "timeContent":\n                self._validate_time_content(node, errs)',
      '            elif content_rule == "timeContent":\n                self._validate_yeardate_content(node, errs)', "R1"),
    E("C02", "date format changed", "break", RULE, 'for yeardate_format in ["%Y", "%Y-%m-%d"]:', 'for yeardate_format in ["%Y", "%Y-%m"]:', "R1"),
    E("C02", "uri handler narrowed", "break", RULE,
      "        except (InvalidComponentsError, MissingComponentError, UnpermittedComponentError, UnicodeError) as ex:",
      "        except (InvalidComponentsError, MissingComponentError, UnicodeError) as ex:", "R2"),
    E("C02", "mixed-content waiver inverted", "break", RULE, "            if (is_mixed_content and len(node.children) == 0) or not is_mixed_content:",
      "            if is_mixed_content and len(node.children) == 0:", "R5"),
    E("C02", "twin: NaN test spelt out", "twin", RULE, "            if not (minmax[0] <= float_val <= minmax[1]):",
      "            if float_val < minmax[0] or float_val > minmax[1] or float_val != float_val:"),
    E("C02", "twin: int predicate guards None explicitly", "twin", RULE, "        if val:\n            try:\n                __ = int(val)",
      "        if val is not None:\n            try:\n                __ = int(val)"),
    # ------------------------------------------------------------------ C03
    E("C03", "required flag ignored", "break", RULE, "            if required and attribute not in node.attributes:", "            if attribute not in node.attributes:", "R2"),
    E("C03", "values from [2:]", "break", RULE, "                    not in self._attributes[attribute][1:]\n                ):",
      "                    not in self._attributes[attribute][2:]\n                ):"),
    E("C03", "introspection returns the flag too", "break", RULE, "                values = self._attributes[attribute][1:]", "                values = self._attributes[attribute][:]", "R1"),
    E("C03", "enumerated only from two values on", "break", RULE,
      "                    len(self._attributes[attribute]) > 1\n                    and node.attributes[attribute]",
      "                    len(self._attributes[attribute]) > 2\n                    and node.attributes[attribute]", "R2"),
    E("C03", "twin: spec bound to a local", "twin", RULE, "            required = self._attributes[attribute][0]",
      "            spec = self._attributes[attribute]\n            required = spec[0]"),
    # ------------------------------------------------------------------ C04
    E("C04", "float conversion without predicate", "break", RULE, "        if Rule.is_float(node.content):\n            float_val = float(node.content)\n            if not (float_val >= 0):",
      "        if True:\n            float_val = float(node.content)\n            if not (float_val >= 0):", "R1"),
    E("C04", "undeclared error code", "break", RULE, "                        ValidationError.CONTENT_EXPECTED_INT,", "                        ValidationError.CONTENT_EXPECTED_INTEGER,"),
    E("C04", "decision on the error list", "break", RULE, "        self._validate_float_content(node, errs)\n        if Rule.is_float(node.content):\n            float_val = float(node.content)\n            if not (float_val >= 0):",
      "        self._validate_float_content(node, errs)\n        if errs:\n            return\n        if Rule.is_float(node.content):\n            float_val = float(node.content)\n            if not (float_val >= 0):", "R3"),
    E("C04", "node and message swapped", "break", RULE, "                        (ValidationError.CONTENT_EXPECTED_NONEMPTY, msg, node)", "                        (ValidationError.CONTENT_EXPECTED_NONEMPTY, node, msg)", "R4"),
    E("C04", "lookup without the known-name test", "break", VAL, "    if n.name not in rule.node_mappings:", "    if n.name is None:", "R1"),
    E("C04", "twin: branches swapped with is not None", "twin", VAL,
      "        if errs is None:\n            raise UnknownNodeError(msg)\n        else:\n            errs.append((ValidationError.UNKNOWN_NODE, msg, n))",
      "        if errs is not None:\n            errs.append((ValidationError.UNKNOWN_NODE, msg, n))\n        else:\n            raise UnknownNodeError(msg)"),
    # ------------------------------------------------------------------ C05
    E("C05", "first child only", "break", VAL, '    if n.name != "metadata":\n        for child in n.children:\n            tree(child, errs)',
      '    if n.name != "metadata":\n        for child in n.children[:1]:\n            tree(child, errs)', "R1"),
    E("C05", "no metadata cut-off", "break", VAL, '    node(n, errs)\n    if n.name != "metadata":\n        for child in n.children:\n            tree(child, errs)',
      "    node(n, errs)\n    for child in n.children:\n        tree(child, errs)"),
    E("C05", "children before the node", "break", VAL, '    node(n, errs)\n    if n.name != "metadata":\n        for child in n.children:\n            tree(child, errs)',
      '    if n.name != "metadata":\n        for child in n.children:\n            tree(child, errs)\n    node(n, errs)', "R1"),
    E("C05", "descent stops after the first error", "break", VAL, '    if n.name != "metadata":\n        for child in n.children:\n            tree(child, errs)',
      '    if n.name != "metadata" and not errs:\n        for child in n.children:\n            tree(child, errs)', "R1"),
    E("C05", "wrong metadata constant in the matcher", "break", RULE, "        if self._node.name == names.METADATA:", "        if self._node.name == names.ADDITIONALMETADATA:"),
    E("C05", "twin: early return and snapshot", "twin", VAL, '    node(n, errs)\n    if n.name != "metadata":\n        for child in n.children:\n            tree(child, errs)',
      '    node(n, errs)\n    if n.name == "metadata":\n        return\n    for child in list(n.children):\n        tree(child, errs)'),
    # ------------------------------------------------------------------ C06
    E("C06", "tail restored into content", "break", MIO, "    if tail is not None:\n        node.tail = tail", "    if tail is not None:\n        node.content = tail", "R2"),
    E("C06", "tail written from content", "break", MIO, '    j[node.name].append({"tail": node.tail})', '    j[node.name].append({"tail": node.content})', "R2"),
    E("C06", "upgrade insert misplaced", "break", CONV, '        model[node].insert(4, {"extras": {}})', '        model[node].insert(3, {"extras": {}})', "R4"),
    E("C06", "upgrade default not empty", "break", CONV, '        model[node].insert(2, {"prefix": None})', '        model[node].insert(2, {"prefix": ""})', "R4"),
    E("C06", "extras not serialised", "break", MIO, '    j[node.name].append({"extras": node.extras})\n', ""),
    E("C06", "legacy children prepended", "break", MPIO, "        child_node = from_json(child, node)\n        node.add_child(child_node)",
      "        child_node = from_json(child, node)\n        node.add_child(child_node, 0)", "R3"),
    # ------------------------------------------------------------------ C07
    E("C07", "tail unescaped", "break", MIO, "        tail = escape(node.tail)", "        tail = node.tail", "R1"),
    E("C07", "quote entity dropped", "break", MIO, "QUOT = {'\"': \"&quot;\"}", "QUOT = {}", "R1"),
    E("C07", "close tag from the bare name", "break", MIO, '        close_tag = f"</{tag}>\\n"', '        close_tag = f"</{node.name}>\\n"', "R2"),
    E("C07", "EML content unescaped", "break", EXP, "                content = escape(content)", "                content = content", "R1"),
    E("C07", "twin: hand-written escaper", "twin", MIO, "        tail = escape(node.tail)",
      '        tail = node.tail.replace("&", "&amp;").replace("<", "&lt;").replace(">", "&gt;")'),
    # ------------------------------------------------------------------ C08
    E("C08", "tail from text", "break", MIO, "                node.tail = e.tail.strip()", "                node.tail = e.text.strip()", "R1"),
    E("C08", "raw tail trimmed", "break", MIO, "        node.content = e.text\n        node.tail = e.tail", "        node.content = e.text\n        node.tail = e.tail.strip() if e.tail else e.tail", "R2"),
    E("C08", "tail collapse differs from text", "break", MIO, '                    node.tail = " ".join(e.tail.split())', '                    node.tail = " ".join(e.tail.split("\\n"))', "R2"),
    E("C08", "literal elements dropped", "break", MIO, "        if _.tag is not etree.Comment:", "        if _.tag is not etree.Comment and _.tag not in literals:", "R3"),
    E("C08", "attribute split inverted", "break", MIO, '        if "{" not in name:', '        if "{" in name:', "R4"),
    E("C08", "prefix not captured", "break", MIO, "    node.prefix = e.prefix", "    node.prefix = None", "R1"),
    # ------------------------------------------------------------------ C09
    E("C09", "insert without parent link", "break", NODE, "            self._children.insert(index, child)\n            child.parent = self", "            self._children.insert(index, child)", "R1"),
    E("C09", "replace without parent link", "break", NODE, "        new_child.parent = self\n        self._children[self._children.index(old_child)] = new_child",
      "        self._children[self._children.index(old_child)] = new_child", "R1"),
    E("C09", "sibling shift keeps the old index", "break", NODE, "                        index = sib_index\n                        break\n            else:\n                if index > 0:",
      "                        break\n            else:\n                if index > 0:", "R2"),
    E("C09", "edge guard off by one", "break", NODE, "                if index < len(self._children) - 1:", "                if index <= len(self._children) - 1:", "R2"),
    E("C09", "foreign child-list writer", "break", REF, "            destination_node.add_child(source_child_copy, index)", "            destination_node.children.insert(index, source_child_copy)", "R1"),
    E("C09", "twin: guard written the other way round", "twin", NODE, "                if index < len(self._children) - 1:", "                if index + 1 <= len(self._children) - 1:"),
    E("C09", "twin: link before the insert", "twin", NODE, "            self._children.insert(index, child)\n            child.parent = self",
      "            child.parent = self\n            self._children.insert(index, child)"),
    # ------------------------------------------------------------------ C10
    E("C10", "element constant renamed away from the rule table", "break", "src/metapype/eml/names.py", 'CODESETURL = "codesetURL"', 'CODESETURL = "codesetUrl"', "R3"),
    E("C10", "mapping to a rule that does not exist", "break", RULE, "    names.FUNDING: RULE_TEXT,", "    names.FUNDING: RULE_FUNDING,", "R1"),
    E("C10", "minimum above maximum", "break", "src/metapype/eml/rules.json", '["attributeAccuracyReport", 1, 1]', '["attributeAccuracyReport", 2, 1]', "R2"),
    E("C10", "unknown content rule", "break", "src/metapype/eml/rules.json", '"content_rules" : ["floatContent_Nonnegative", "nonEmptyContent"]',
      '"content_rules" : ["floatContent_NonNegative", "nonEmptyContent"]', "R2"),
    E("C10", "unsatisfiable content pair", "break", "src/metapype/eml/rules.json", '"content_rules" : ["floatContent_Nonnegative", "nonEmptyContent"]',
      '"content_rules" : ["emptyContent", "nonEmptyContent"]', "R4"),
    E("C10", "twin: name constant that nothing maps", "twin", "src/metapype/eml/names.py", 'CODESETURL = "codesetURL"', 'CODESETURL = "codesetURL"\nUNUSED_NAME = "unusedName"'),
    # ------------------------------------------------------------------ C11
    E("C11", "serialiser sorts the children", "break", MIO, '    j = {node.name: []}\n    j[node.name].append({"id": node.id})\n    j[node.name].append({"nsmap": node.nsmap})',
      '    j = {node.name: []}\n    node.children.sort(key=lambda c: c.name)\n    j[node.name].append({"id": node.id})\n    j[node.name].append({"nsmap": node.nsmap})', "R1"),
    E("C11", "validator pops an attribute", "break", RULE, "        for attribute in node.attributes:\n            # Test for non-allowed attribute",
      "        attrs = node.attributes\n        attrs.pop(\"xml:lang\", None)\n        for attribute in node.attributes:\n            # Test for non-allowed attribute", "R1"),
    E("C11", "evaluator clears the tail", "break", EVA, "    evaluation = []\n    title = node.content", "    evaluation = []\n    node.tail = None\n    title = node.content", "R1"),
    E("C11", "exporter writes content back", "break", EXP, "                content = escape(content)", "                content = escape(content)\n                node.content = content", "R1"),
    E("C11", "twin: exporter works on a local copy", "twin", MIO, "        content = escape(node.content)", "        raw = node.content\n        content = escape(raw)"),
    # ------------------------------------------------------------------ C12
    E("C12", "extras shared", "break", NODE, "        _copy.extras = {}\n        for key, val in self.extras.items():\n            _copy.extras[key] = val", "", "R1"),
    E("C12", "original child attached", "break", NODE, "            _child_copy = child.copy()\n            _child_copy.parent = _copy", "            _child_copy = child\n            _child_copy.parent = _copy", "R1"),
    E("C12", "registered before the new id", "break", NODE, "        _copy._id = str(uuid.uuid1())\n        Node.set_node_instance(_copy)",
      "        Node.set_node_instance(_copy)\n        _copy._id = str(uuid.uuid1())", "R3"),
    E("C12", "nsmap aliased", "break", NODE, "        _copy.nsmap = {}\n        for key, val in self.nsmap.items():\n            _copy.nsmap[key] = val", "        _copy.nsmap = self.nsmap", "R1"),
    E("C12", "twin: dict() copy", "twin", NODE, "        _copy.nsmap = {}\n        for key, val in self.nsmap.items():\n            _copy.nsmap[key] = val", "        _copy.nsmap = dict(self.nsmap)"),
    # ------------------------------------------------------------------ C13
    E("C13", "remove_namespace in place", "break", NODE, "        if prefix in self.nsmap:\n            self.nsmap = copy.deepcopy(self.nsmap)\n            del self.nsmap[prefix]",
      "        if prefix in self.nsmap:\n            del self.nsmap[prefix]", "R1"),
    E("C13", "re-declaration in place", "break", NODE, "        if prefix not in self.nsmap or self.nsmap[prefix] != namespace:\n            self.nsmap = copy.deepcopy(self.nsmap)\n            self.nsmap[prefix] = namespace",
      "        if prefix in self.nsmap:\n            self.nsmap[prefix] = namespace\n        else:\n            self.nsmap = copy.deepcopy(self.nsmap)\n            self.nsmap[prefix] = namespace", "R1"),
    E("C13", "child bindings overwritten on attach", "break", NODE, "                if prefix not in child.nsmap:\n                    child.add_namespace(prefix, self.nsmap[prefix])",
      "                child.add_namespace(prefix, self.nsmap[prefix])", "R3"),
    E("C13", "children re-attached unconditionally", "break", NODE,
      "            if id(child.nsmap) == nsmap_id:\n                child.nsmap = self.nsmap\n                child.remove_namespace(prefix, nsmap_id=nsmap_id)\n            else:\n                child.remove_namespace(prefix)",
      "            child.nsmap = self.nsmap\n            child.remove_namespace(prefix, nsmap_id=nsmap_id)", "R2"),
    E("C13", "twin: fresh dict by unpacking", "twin", NODE, "            self.nsmap = copy.deepcopy(self.nsmap)\n            self.nsmap[prefix] = namespace",
      "            self.nsmap = {**self.nsmap, prefix: namespace}"),
    # ------------------------------------------------------------------ C14
    E("C14", "unregistration under an extra condition", "break", NODE, "        if delete_old:\n            Node.delete_node_instance(id=old_child.id)",
      "        if delete_old and old_child.children:\n            Node.delete_node_instance(id=old_child.id)", "R3"),
    E("C14", "pruned child stays registered", "break", VAL, "                    n.remove_child(child)\n                    Node.delete_node_instance(child.id)\n        children = n.children.copy()",
      "                    n.remove_child(child)\n        children = n.children.copy()", "R3"),
    E("C14", "parent unregistered instead of the reference", "break", REF, "        Node.delete_node_instance(reference.id)", "        Node.delete_node_instance(destination_node.id)"),
    E("C14", "descendants below level one stay registered", "break", NODE, "                cls.delete_node_instance(child.id)", "                cls.delete_node_instance(child.id, children=False)", "R5"),
    E("C14", "registration only for roots", "break", NODE, "        self._children = []\n        Node.set_node_instance(self)", "        self._children = []\n        if parent is None:\n            Node.set_node_instance(self)", "R1"),
    # ------------------------------------------------------------------ C15
    E("C15", "membership guard removed", "break", VAL, "            if strict and child in n.children:", "            if strict:", "R1"),
    E("C15", "removal not recorded", "break", VAL, "                    pruned.append((child, msg))\n                    n.remove_child(child)", "                    n.remove_child(child)", "R3"),
    E("C15", "sweep only under one subclass", "break", VAL, "        except MetapypeRuleError as ex:\n            logger.debug(ex)\n            r = rule.get_rule(n.name)",
      "        except ChildNotAllowedError as ex:\n            logger.debug(ex)\n            r = rule.get_rule(n.name)"),
    E("C15", "live list iterated", "break", VAL, "        children = n.children.copy()\n        for child in children:\n            pruned += prune(child, strict)",
      "        children = n.children\n        for child in children:\n            pruned += prune(child, strict)", "R5"),
    E("C15", "twin: stricter membership guard", "twin", VAL, "            if strict and child in n.children:", "            if strict and child.parent is n and child in n.children:"),
    # ------------------------------------------------------------------ C16
    E("C16", "index not advanced", "break", REF, "            destination_node.add_child(source_child_copy, index)\n            index += 1", "            destination_node.add_child(source_child_copy, index)", "R2"),
    E("C16", "index taken after the removal", "break", REF, "        index = destination_node.children.index(reference)\n        destination_node.remove_child(reference)",
      "        destination_node.remove_child(reference)\n        index = len(destination_node.children)", "R2"),
    E("C16", "original child moved", "break", REF, "            source_child_copy = source_child.copy()", "            source_child_copy = source_child", "R3"),
    E("C16", "lookup inside the mutating loop", "break", REF, "        resolved.append((reference, ids[reference.content]))", "        resolved.append((reference, ids.get(reference.content)))", "R1"),
    E("C16", "twin: position through child_index", "twin", REF, "        index = destination_node.children.index(reference)", "        index = destination_node.child_index(reference)"),
    # ------------------------------------------------------------------ C18
    E("C18", "tail not compared", "break", NODE, "        if node1.tail != node2.tail:\n            return False\n", "", "R1"),
    E("C18", "prefix test inverted", "break", NODE, "        if node1.prefix != node2.prefix:", "        if node1.prefix == node2.prefix:", "R4"),
    E("C18", "children paired with the first", "break", NODE, "                child2 = node2.children[index]", "                child2 = node2.children[0]", "R2"),
    E("C18", "first pair decides", "break", NODE, "                if not Node.is_equal(child1, child2):\n                    return False", "                return Node.is_equal(child1, child2)", "R2"),
    # ------------------------------------------------------------------ C19
    E("C19", "title threshold off by one", "break", EVA, "            if length < 5:", "            if length <= 5:", "R4"),
    E("C19", "abstract threshold halved", "break", EVA, "            if len(words) < 20:", "            if len(words) < 10:", "R4"),
    E("C19", "coverage node dereferenced unguarded", "break", EVA, "    if not (coverage_node and coverage_node.children):", "    if not coverage_node.children:", "R1"),
    E("C19", "dispatch key misspelt", "break", EVA, "    names.PERSONNEL: _personnel_rule,", '    "personel": _personnel_rule,', "R2"),
    E("C19", "para content concatenated unguarded", "break", EVA, "        if para.content:\n            content += '\\n' + para.content", "        content += '\\n' + para.content", "R1"),
    E("C19", "twin: threshold written the other way round", "twin", EVA, "            if length < 5:", "            if 5 > length:"),
    E("C19", "twin: conditional expression instead of the guard", "twin", EVA, "        if para.content:\n            content += '\\n' + para.content", "        content += ('\\n' + para.content) if para.content else ''"),
]
