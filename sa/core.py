"""Shared context, findings and report objects for all property checks."""
from __future__ import annotations

import ast
import json
import os
from dataclasses import dataclass, field
from typing import Any, Dict, List, Optional

from .model import AnalysisError, Program, norm

VERIF = os.path.dirname(os.path.dirname(os.path.abspath(__file__)))


@dataclass
class Finding:
    prop: str
    rule: str
    where: str  # qualified function, or table entry
    construct: str  # normalised construct (no positions)
    reason: str
    loc: str = ""  # file:line, informational only (never part of the key)
    path: str = ""  # entry point / call path for path rules

    @property
    def key(self):
        return (self.prop, self.rule, self.where, self.construct)

    def line(self):
        s = f"{self.loc}  {self.prop}-{self.rule}  {self.where}  `{self.construct}`  {self.reason}"
        if self.path:
            s += f"  [path: {self.path}]"
        return s


class Report:
    def __init__(self, prop: str):
        self.prop = prop
        self.findings: List[Finding] = []
        self.instances: Dict[str, int] = {}  # rule instance kind -> count examined
        self.floors: Dict[str, int] = {}
        self.nontrivial: set = set()  # distinct non-trivial obligations (hashable descriptions)
        self.samples: List[Any] = []
        self.obligations = 0
        self.discharged = 0
        self.notes: List[str] = []
        self.files: set = set()
        self.functions: set = set()
        self.assumed_total: set = set()
        self.extra: Dict[str, Any] = {}
        self.rules_run: List[str] = []
        self.assumptions: List[str] = []
        self.explanation = ""
        self.exhaustive = False

    # -- recording ---------------------------------------------------------
    def count(self, kind: str, n: int = 1):
        self.instances[kind] = self.instances.get(kind, 0) + n

    def floor(self, kind: str, n: int, rule: str = None):
        self.floors[kind] = n
        rule = rule or getattr(self, "_current_rule", None)
        if rule is not None:
            if not hasattr(self, "floor_rule"):
                self.floor_rule = {}
            self.floor_rule[kind] = rule

    def oblige(self, desc, discharged: bool, sample=None):
        """one non-trivial obligation examined by a rule"""
        self.obligations += 1
        if discharged:
            self.discharged += 1
        self.nontrivial.add(desc if isinstance(desc, (str, tuple)) else str(desc))
        if sample is not None and len(self.samples) < 40:
            self.samples.append(sample)

    def sample(self, s):
        if len(self.samples) < 40:
            self.samples.append(s)

    def add(self, rule, where, construct, reason, loc="", path=""):
        if isinstance(construct, ast.AST):
            construct = norm(construct)
        f = Finding(self.prop, rule, where, construct, reason, loc, path)
        if f.key not in {x.key for x in self.findings}:
            self.findings.append(f)
        return f

    def guarded(self, rule, fn, *args):
        """run one rule; an analysis error inside it is kept per rule, so that the other rules still run and the dispatcher can decide
        whether a fold rule that decided the same behaviour stands in for it (check.settle)"""
        prev = getattr(self, "_current_rule", None)
        self._current_rule = rule
        try:
            fn(*args)
        except AnalysisError as ex:
            if not hasattr(self, "rule_errors"):
                self.rule_errors = {}
            self.rule_errors.setdefault(rule, str(ex))
        finally:
            self._current_rule = prev

    def touch(self, fi):
        self.files.add(fi.module.relpath)
        self.functions.add(fi.qname)

    def check_floors(self, stands_in=None):
        for k, n in self.floors.items():
            got = self.instances.get(k, 0)
            r = getattr(self, "floor_rule", {}).get(k)
            if got < n and r is not None and stands_in is not None and stands_in(r):
                self.notes.append(f"{self.prop}-{r}: only {got} of at least {n} '{k}' recognised in this shape of the code -- the fold rule that decides the same "
                                  f"behaviour stands in")
                continue
            if got < n:
                raise AnalysisError(
                    f"{self.prop}: rule instance count for '{k}' is {got}, below the confirmed floor {n} "
                    f"(the rule would pass vacuously)")


def load_known():
    p = os.path.join(VERIF, "known_findings.json")
    if not os.path.exists(p):
        return {"findings": [], "fixed": []}
    with open(p, encoding="utf-8") as f:
        return json.load(f)


def known_match(known, f: Finding) -> Optional[dict]:
    for k in known.get("findings", []):
        if (k.get("property") == f.prop and k.get("rule") == f.rule and k.get("where") == f.where
                and k.get("construct") == f.construct):
            return k
    return None
