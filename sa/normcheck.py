"""Developer tool (not a property check): sanity test of the normaliser.  For every kept refactoring and seed patch (or the
given ones): apply it to a scratch copy, normalise the program, write the normalised modules back as source, and run the
repository's test suite on them.  A normalisation that is not behaviour-preserving shows up as a failing test.
    python -m sa.normcheck [name-prefix ...]"""
import ast, os, shutil, subprocess, sys, tempfile
from concurrent.futures import ThreadPoolExecutor
from .core import VERIF
from .model import Program
from .types import World
from .normalize import normalize_program


def one(item):
    name, patch = item
    d = tempfile.mkdtemp(prefix="sa_nc_")
    try:
        for sub in ("src", "utils", "tests"):
            shutil.copytree(os.path.join("/repo", sub), os.path.join(d, sub), ignore=shutil.ignore_patterns("__pycache__", "*.pyc", "*.log"))
        if patch:
            r = subprocess.run(["git", "apply", patch], cwd=d, capture_output=True, text=True)
            if r.returncode:
                return name, "patch does not apply"
        env = dict(os.environ, PYTHONPATH=os.path.join(d, "src"), PYTHONDONTWRITEBYTECODE="1")
        base = subprocess.run(["/venv/bin/python", "-m", "pytest", "-q", "-x", "-p", "no:cacheprovider", "tests"], cwd=d, env=env, capture_output=True, text=True)
        if base.returncode != 0:
            return name, "tests fail before normalisation (a seed?)"
        try:
            prog = Program(d)
            trees, info = normalize_program(prog, World(prog))
        except Exception as e:
            return name, f"normaliser crashed: {type(e).__name__}: {e}"
        n = 0
        for mod, t in trees.items():
            mi = prog.modules[mod]
            try:
                src = ast.unparse(t)
                compile(src, mi.path, "exec")
            except Exception as e:
                return name, f"normalised {mod} does not compile: {e}"
            if ast.dump(t) != ast.dump(mi.tree):
                open(mi.path, "w").write(src)
                n += 1
        r = subprocess.run(["/venv/bin/python", "-m", "pytest", "-q", "-x", "-p", "no:cacheprovider", "tests"], cwd=d, env=env, capture_output=True, text=True)
        if r.returncode != 0:
            tail = [l for l in r.stdout.splitlines() if l.strip()][-6:]
            return name, f"TESTS FAIL after normalisation ({n} modules rewritten): " + " | ".join(tail)[:600]
        return name, f"ok ({n} modules rewritten, {len(info.get('dissolved', {}))} functions touched)"
    finally:
        shutil.rmtree(d, ignore_errors=True)


def main():
    pref = sys.argv[1:]
    items = [("<clean tree>", None)]
    for kind in ("refactorings", "seeded"):
        for name in sorted(os.listdir(os.path.join(VERIF, kind))):
            p = os.path.join(VERIF, kind, name, "patch.diff")
            if os.path.exists(p) and (not pref or any(name.startswith(x) for x in pref)):
                items.append((f"{kind}/{name}", p))
    with ThreadPoolExecutor(max_workers=16) as ex:
        res = list(ex.map(one, items))
    bad = 0
    for name, msg in res:
        if not msg.startswith("ok") and "a seed?" not in msg:
            bad += 1
            print(name, msg)
    print(len(res), "trees,", bad, "problems")


if __name__ == "__main__":
    main()
