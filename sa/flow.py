"""E2 -- structured forward abstract interpreter over one function body.

The repository has no goto-like control flow, so a syntax-directed walk with
explicit loop fixpoints, break/continue/return frames and try frames computes
exactly what a statement CFG with a forward dataflow would: the state holding
on *every* path to a program point ("dominating, not killed") for must
domains, and the union over paths for may domains.  The domain decides what a
state is and how two states meet.

A domain object provides
    meet(a, b)                      -> state          (both non-None)
    assume_atom(test, outcome, st)  -> state | None   (None: infeasible)
    stmt(s, st, flow)               -> state | None   simple statements, after
                                                      their sub-expressions
    expr(e, st, flow)               -> state | None   post-order on every
                                                      expression node
    bind_for(target, iter, st, flow, comp) -> state   loop variable binding
    bind_handler(handler, st, flow) -> state
    bind_with(item, st, flow)       -> state
    enter_function(func, st, flow)  -> state
and may call flow.raise_event(classes, node, st, why, kind) for partial
operations; the flow matches them against enclosing handlers.
"""
from __future__ import annotations

import ast
from typing import Any, Callable, List, Optional

from .model import AnalysisError, FuncInfo, norm


class LoopFrame:
    def __init__(self):
        self.breaks: list = []
        self.continues: list = []


class TryFrame:
    def __init__(self, handlers):
        self.handlers = handlers  # list of (list of class names | None for bare, handler node)
        self.states: list = []
        self.caught: list = []  # (class, node, why)


class Event:
    __slots__ = ("cls", "node", "why", "kind", "caught_by", "state")

    def __init__(self, cls, node, why, kind, caught_by, state):
        self.cls = cls
        self.node = node
        self.why = why
        self.kind = kind
        self.caught_by = caught_by
        self.state = state


class Flow:
    def __init__(self, func: FuncInfo, domain, hierarchy, resolve_exc: Callable[[ast.expr], Optional[str]]):
        self.func = func
        self.domain = domain
        self.h = hierarchy
        self.resolve_exc = resolve_exc
        self.loops: List[LoopFrame] = []
        self.tries: List[TryFrame] = []
        self.quiet = 0
        self.events: List[Event] = []  # every may-raise event (caught or not), final pass only
        self.returns: list = []  # (stmt, state)
        self.end_state = None
        self.notes: list = []

    # ----------------------------------------------------------------- helpers
    def meet_opt(self, *states):
        out = None
        for s in states:
            if s is None:
                continue
            out = s if out is None else self.domain.meet(out, s)
        return out

    def run(self, init_state):
        st = self.domain.enter_function(self.func, init_state, self)
        self.end_state = self.block(self.func.node.body, st)
        return self

    # ------------------------------------------------------------------ events
    def raise_event(self, classes, node, st, why, kind="partial"):
        """``classes``: iterable of exception class names that may be raised
        at ``node``.  Returns the list of classes that are NOT caught inside
        this function."""
        escaping = []
        for c in classes:
            caught_by = None
            for fr in reversed(self.tries):
                hit = None
                for hcls, hnode in fr.handlers:
                    if hcls is None or any(self.h.issub(c, x) for x in hcls):
                        hit = hnode
                        break
                if hit is not None:
                    caught_by = hit
                    fr.caught.append((c, node, why, hit))
                    break
            if caught_by is None:
                escaping.append(c)
            if not self.quiet:
                self.events.append(Event(c, node, why, kind, caught_by, st))
        return escaping

    # -------------------------------------------------------------- assumption
    def assume(self, test: ast.expr, outcome: bool, st):
        if st is None:
            return None
        if isinstance(test, ast.UnaryOp) and isinstance(test.op, ast.Not):
            return self.assume(test.operand, not outcome, st)
        if isinstance(test, ast.BoolOp):
            conj = isinstance(test.op, ast.And)
            if conj == outcome:
                # (A and B) true  /  (A or B) false : all operands have `outcome`
                cur = st
                for v in test.values:
                    cur = self.assume(v, outcome, cur)
                    if cur is None:
                        return None
                return cur
            # (A and B) false / (A or B) true: first k-1 have `not outcome`... disjunction of paths
            outs = []
            cur = st
            for v in test.values:
                outs.append(self.assume(v, outcome, cur))
                cur = self.assume(v, not outcome, cur)
                if cur is None:
                    break
            return self.meet_opt(*outs)
        if isinstance(test, ast.Constant):
            return st if bool(test.value) == outcome else None
        if isinstance(test, ast.NamedExpr):
            return self.assume(test.target, outcome, st)
        return self.domain.assume_atom(test, outcome, st)

    # -------------------------------------------------------------- expressions
    def ev(self, e: Optional[ast.expr], st):
        if st is None or e is None:
            return st
        d = self.domain
        if isinstance(e, ast.BoolOp):
            conj = isinstance(e.op, ast.And)
            outs = []
            cur = st
            for i, v in enumerate(e.values):
                cur = self.ev(v, cur)
                if cur is None:
                    break
                if i < len(e.values) - 1:
                    outs.append(self.assume(v, not conj, cur))
                    cur = self.assume(v, conj, cur)
                    if cur is None:
                        break
            if cur is not None:
                outs.append(cur)
            out = self.meet_opt(*outs)
            return d.expr(e, out, self) if out is not None else None
        if isinstance(e, ast.IfExp):
            s1 = self.ev(e.test, st)
            a = self.ev(e.body, self.assume(e.test, True, s1))
            b = self.ev(e.orelse, self.assume(e.test, False, s1))
            out = self.meet_opt(a, b)
            return d.expr(e, out, self) if out is not None else None
        if isinstance(e, (ast.ListComp, ast.SetComp, ast.GeneratorExp, ast.DictComp)):
            return self._comp(e, st)
        if isinstance(e, ast.Lambda):
            return st
        if isinstance(e, (ast.Yield, ast.YieldFrom)):
            # a generator body: the yielded expression is evaluated here (whatever it may raise is raised when the consumer asks for the
            # element; for "may this escape / may this write" that is the same question); what comes back from the consumer is unknown
            s1 = self.ev(e.value, st) if e.value is not None else st
            return d.expr(e, s1, self) if s1 is not None else None
        if isinstance(e, ast.Await):
            raise AnalysisError(f"{self.func.loc(e)}: unsupported construct {type(e).__name__} in {self.func.qname}")
        if isinstance(e, ast.NamedExpr):
            s1 = self.ev(e.value, st)
            if s1 is None:
                return None
            fake = ast.Assign(targets=[e.target], value=e.value)
            ast.copy_location(fake, e)
            return d.stmt(fake, s1, self)
        cur = st
        if isinstance(e, ast.Call):
            cur = self.ev(e.func, cur)
            for a in e.args:
                cur = self.ev(a.value if isinstance(a, ast.Starred) else a, cur)
            for k in e.keywords:
                cur = self.ev(k.value, cur)
        elif isinstance(e, ast.Compare):
            cur = self.ev(e.left, cur)
            for c in e.comparators:
                cur = self.ev(c, cur)
        elif isinstance(e, ast.Subscript):
            cur = self.ev(e.value, cur)
            cur = self.ev(e.slice, cur)
        elif isinstance(e, ast.Slice):
            for x in (e.lower, e.upper, e.step):
                cur = self.ev(x, cur)
        elif isinstance(e, ast.Attribute):
            cur = self.ev(e.value, cur)
        elif isinstance(e, ast.BinOp):
            cur = self.ev(e.left, cur)
            cur = self.ev(e.right, cur)
        elif isinstance(e, ast.UnaryOp):
            cur = self.ev(e.operand, cur)
        elif isinstance(e, (ast.Tuple, ast.List, ast.Set)):
            for x in e.elts:
                cur = self.ev(x.value if isinstance(x, ast.Starred) else x, cur)
        elif isinstance(e, ast.Dict):
            for k, v in zip(e.keys, e.values):
                cur = self.ev(k, cur)
                cur = self.ev(v, cur)
        elif isinstance(e, ast.JoinedStr):
            for v in e.values:
                cur = self.ev(v, cur)
        elif isinstance(e, ast.FormattedValue):
            cur = self.ev(e.value, cur)
            cur = self.ev(e.format_spec, cur)
        elif isinstance(e, ast.Starred):
            cur = self.ev(e.value, cur)
        elif isinstance(e, (ast.Name, ast.Constant)):
            pass
        else:
            raise AnalysisError(f"{self.func.loc(e)}: unsupported expression {type(e).__name__} in {self.func.qname}")
        if cur is None:
            return None
        return d.expr(e, cur, self)

    def _comp(self, e, st):
        d = self.domain
        cur = st
        base = None
        for gi, g in enumerate(e.generators):
            cur = self.ev(g.iter, cur)
            if cur is None:
                return None
            if base is None:
                base = cur
            cur = d.bind_for(g.target, g.iter, cur, self, True)
            for c in g.ifs:
                cur = self.ev(c, cur)
                cur = self.assume(c, True, cur)
                if cur is None:
                    break
            if cur is None:
                break
        if cur is not None:
            if isinstance(e, ast.DictComp):
                cur = self.ev(e.key, cur)
                cur = self.ev(e.value, cur)
            else:
                cur = self.ev(e.elt, cur)
        out = self.meet_opt(base, cur) if base is not None else cur
        if out is None:
            return None
        out = d.leave_comp(e, out, self) if hasattr(d, "leave_comp") else out
        return d.expr(e, out, self)

    # --------------------------------------------------------------- statements
    def block(self, stmts, st):
        for s in stmts:
            if st is None:
                return None
            st = self.stmt(s, st)
        return st

    def _record(self, st):
        if st is not None:
            for fr in self.tries:
                fr.states.append(st)

    def stmt(self, s: ast.stmt, st):
        self._record(st)
        out = self._stmt(s, st)
        self._record(out)
        return out

    def _stmt(self, s, st):
        d = self.domain
        if isinstance(s, ast.If):
            s1 = self.ev(s.test, st)
            a = self.block(s.body, self.assume(s.test, True, s1))
            b = self.block(s.orelse, self.assume(s.test, False, s1))
            return self.meet_opt(a, b)
        if isinstance(s, ast.While):
            return self._loop(s, st, is_for=False)
        if isinstance(s, (ast.For, ast.AsyncFor)):
            s1 = self.ev(s.iter, st)
            if s1 is None:
                return None
            return self._loop(s, s1, is_for=True)
        if isinstance(s, ast.Try) or (hasattr(ast, "TryStar") and isinstance(s, getattr(ast, "TryStar"))):
            return self._try(s, st)
        if isinstance(s, (ast.With, ast.AsyncWith)):
            cur = st
            for it in s.items:
                cur = self.ev(it.context_expr, cur)
                if cur is None:
                    return None
                cur = d.bind_with(it, cur, self)
            return self.block(s.body, cur)
        if isinstance(s, ast.Return):
            s1 = self.ev(s.value, st)
            if s1 is not None:
                s1 = d.stmt(s, s1, self)
                if s1 is not None and not self.quiet:
                    self.returns.append((s, s1))
            return None
        if isinstance(s, ast.Raise):
            s1 = self.ev(s.exc, st)
            s1 = self.ev(s.cause, s1)
            if s1 is not None:
                d.stmt(s, s1, self)
            return None
        if isinstance(s, ast.Break):
            if self.loops:
                self.loops[-1].breaks.append(st)
            return None
        if isinstance(s, ast.Continue):
            if self.loops:
                self.loops[-1].continues.append(st)
            return None
        if isinstance(s, (ast.Pass, ast.Import, ast.ImportFrom, ast.Global, ast.Nonlocal)):
            return st
        if isinstance(s, (ast.FunctionDef, ast.AsyncFunctionDef, ast.ClassDef)):
            return d.stmt(s, st, self)
        if isinstance(s, ast.Expr):
            s1 = self.ev(s.value, st)
            return d.stmt(s, s1, self) if s1 is not None else None
        if isinstance(s, ast.Assign):
            s1 = self.ev(s.value, st)
            for t in s.targets:
                s1 = self._ev_target(t, s1)
            return d.stmt(s, s1, self) if s1 is not None else None
        if isinstance(s, ast.AugAssign):
            s1 = self.ev(s.value, st)
            s1 = self._ev_target(s.target, s1, load_too=True)
            return d.stmt(s, s1, self) if s1 is not None else None
        if isinstance(s, ast.AnnAssign):
            s1 = self.ev(s.value, st)
            s1 = self._ev_target(s.target, s1)
            return d.stmt(s, s1, self) if s1 is not None else None
        if isinstance(s, ast.Delete):
            s1 = st
            for t in s.targets:
                s1 = self._ev_target(t, s1)
            return d.stmt(s, s1, self) if s1 is not None else None
        if isinstance(s, ast.Assert):
            s1 = self.ev(s.test, st)
            return self.assume(s.test, True, s1)
        raise AnalysisError(f"{self.func.loc(s)}: unsupported statement {type(s).__name__} in {self.func.qname}")

    def _ev_target(self, t, st, load_too=False):
        """evaluate the sub-expressions of a store/del target (receiver and
        index); the store itself is the domain's business in stmt()"""
        if st is None:
            return None
        if isinstance(t, ast.Name):
            return st
        if isinstance(t, ast.Attribute):
            return self.ev(t.value, st)
        if isinstance(t, ast.Subscript):
            s1 = self.ev(t.value, st)
            return self.ev(t.slice, s1)
        if isinstance(t, (ast.Tuple, ast.List)):
            for x in t.elts:
                st = self._ev_target(x, st)
            return st
        if isinstance(t, ast.Starred):
            return self._ev_target(t.value, st)
        raise AnalysisError(f"{self.func.loc(t)}: unsupported assignment target {type(t).__name__}")

    def _loop_once(self, s, head, is_for):
        d = self.domain
        fr = LoopFrame()
        self.loops.append(fr)
        try:
            if is_for:
                body_in = d.bind_for(s.target, s.iter, head, self, False)
                exit_st = d.for_exit(s, head, self) if hasattr(d, "for_exit") else head
            else:
                s1 = self.ev(s.test, head)
                body_in = self.assume(s.test, True, s1)
                exit_st = self.assume(s.test, False, s1)
            body_out = self.block(s.body, body_in)
        finally:
            self.loops.pop()
        back = self.meet_opt(body_out, *fr.continues)
        return back, exit_st, fr.breaks

    def _loop(self, s, st, is_for):
        head = st
        for _ in range(50):
            self.quiet += 1
            try:
                back, _exit, _br = self._loop_once(s, head, is_for)
            finally:
                self.quiet -= 1
            new_head = self.meet_opt(st, back)
            if hasattr(self.domain, "widen"):
                new_head = self.domain.widen(head, new_head)
            if new_head == head:
                break
            head = new_head
        else:
            raise AnalysisError(f"{self.func.loc(s)}: loop fixpoint did not converge in {self.func.qname}")
        back, exit_st, breaks = self._loop_once(s, head, is_for)
        after = self.block(s.orelse, exit_st) if s.orelse else exit_st
        return self.meet_opt(after, *breaks)

    def _try(self, s, st):
        d = self.domain
        handlers = []
        for hd in s.handlers:
            if hd.type is None:
                handlers.append((None, hd))
            else:
                types = hd.type.elts if isinstance(hd.type, ast.Tuple) else [hd.type]
                names = []
                # a module-level tuple of exception classes used as the handler's type
                expanded = []
                for t in types:
                    tt = t
                    if isinstance(tt, ast.Name) and self.resolve_exc(tt) is None:
                        v = self.func.module.consts.get(tt.id)
                        if isinstance(v, ast.Tuple) and self.func.module.const_multi.get(tt.id, 0) == 1:
                            expanded.extend(v.elts)
                            continue
                    expanded.append(tt)
                for t in expanded:
                    r = self.resolve_exc(t)
                    if r is None:
                        raise AnalysisError(f"{self.func.loc(t)}: cannot resolve exception class {norm(t)}")
                    names.append(r)
                handlers.append((names, hd))
        fr = TryFrame(handlers)
        fr.states.append(st)
        self.tries.append(fr)
        try:
            body_out = self.block(s.body, st)
        finally:
            self.tries.pop()
        # outer frames also need the states seen inside
        for outer in self.tries:
            outer.states.extend(fr.states)
        else_out = self.block(s.orelse, body_out) if s.orelse else body_out
        h_in = self.meet_opt(*fr.states)
        outs = [else_out]
        prune = getattr(d, "prune_dead_handlers", False)
        for (hcls, hd) in handlers:
            hi = d.bind_handler(hd, h_in, self) if h_in is not None else None
            if prune and hcls is not None and not any(x in ("Exception", "BaseException") for x in hcls) \
                    and not any(c[3] is hd for c in fr.caught):
                hi = None  # nothing the partial-operation table knows of can reach this handler
            outs.append(self.block(hd.body, hi))
        out = self.meet_opt(*outs)
        if s.finalbody:
            # the repository's slices use no ``finally``; only the normal path is modelled
            out = self.block(s.finalbody, out if out is not None else h_in)
        return out
