"""E5 -- positional serialisation layouts: what a writer appends, what a reader
subscripts, and where the values go."""
from __future__ import annotations

import ast
from typing import Dict, List, Optional, Tuple

from .model import AnalysisError, FuncInfo, norm


def writer_layout(ctx, fi: FuncInfo):
    """ordered [(key, value expr, stmt)] appended to the body list of the one-key dict built by a serialiser;
    also returns (name_expr, body list expression text)"""
    prog = ctx.prog
    nodep = fi.params[0]
    # j = {node.name: []}
    holder, name_expr, body_list = None, None, None
    empty_lists = {n.targets[0].id for n in ast.walk(fi.node) if isinstance(n, ast.Assign) and len(n.targets) == 1 and isinstance(n.targets[0], ast.Name)
                   and ((isinstance(n.value, ast.List) and not n.value.elts) or (isinstance(n.value, ast.Call) and isinstance(n.value.func, ast.Name)
                                                                                  and n.value.func.id == "list" and not n.value.args))}
    for n in ast.walk(fi.node):
        if isinstance(n, ast.Assign) and len(n.targets) == 1 and isinstance(n.targets[0], ast.Name) and isinstance(n.value, ast.Dict) \
                and len(n.value.keys) == 1:
            v = n.value.values[0]
            if isinstance(v, ast.List) and not v.elts:
                holder, name_expr = n.targets[0].id, n.value.keys[0]
            elif isinstance(v, ast.Name) and v.id in empty_lists:
                # body = []; j = {node.name: body}: appends go to the local list
                holder, name_expr, body_list = n.targets[0].id, n.value.keys[0], v.id
    if holder is None:
        # body = [{k: v}, ...]; body.append({k: v}); ...; {node.name: body}  (returned or assigned)
        for n in ast.walk(fi.node):
            lit = n.value if isinstance(n, (ast.Return, ast.Assign)) else None
            if isinstance(lit, ast.Dict) and len(lit.keys) == 1 and isinstance(lit.values[0], ast.Name):
                L = lit.values[0].id
                defs = [a for a in ast.walk(fi.node) if isinstance(a, ast.Assign) and len(a.targets) == 1 and isinstance(a.targets[0], ast.Name) and a.targets[0].id == L]
                if len(defs) == 1 and isinstance(defs[0].value, ast.List) and all(isinstance(x, ast.Dict) and len(x.keys) == 1 for x in defs[0].value.elts):
                    out = []
                    for x in defs[0].value.elts:
                        k = prog.const(fi.module, x.keys[0])
                        out.append((k if isinstance(k, str) else None, x.values[0], defs[0]))

                    def visit2(stmts):
                        for s_ in stmts:
                            if isinstance(s_, ast.Expr) and isinstance(s_.value, ast.Call) and isinstance(s_.value.func, ast.Attribute) \
                                    and s_.value.func.attr in ("append", "insert") and isinstance(s_.value.func.value, ast.Name) and s_.value.func.value.id == L and s_.value.args:
                                a_ = s_.value.args[-1]
                                if s_.value.func.attr == "insert":
                                    out.append(("?insert", a_, s_))
                                elif isinstance(a_, ast.Dict) and len(a_.keys) == 1:
                                    k_ = prog.const(fi.module, a_.keys[0])
                                    out.append((k_ if isinstance(k_, str) else None, a_.values[0], s_))
                                else:
                                    out.append((None, a_, s_))
                            elif isinstance(s_, (ast.For, ast.While, ast.If, ast.With, ast.Try)):
                                for m_ in ast.walk(s_):
                                    if isinstance(m_, ast.Call) and isinstance(m_.func, ast.Attribute) and m_.func.attr in ("append", "insert", "extend") \
                                            and isinstance(m_.func.value, ast.Name) and m_.func.value.id == L:
                                        out.append(("?conditional", None, s_))
                    visit2(fi.node.body)
                    return out, lit.keys[0], L
        # the whole document built as one literal: {node.name: [{key: value}, ...]}
        for n in ast.walk(fi.node):
            lit = n.value if isinstance(n, (ast.Return, ast.Assign)) else None
            if isinstance(lit, ast.Dict) and len(lit.keys) == 1 and isinstance(lit.values[0], ast.List) and lit.values[0].elts \
                    and all(isinstance(x, ast.Dict) and len(x.keys) == 1 for x in lit.values[0].elts):
                out = []
                for x in lit.values[0].elts:
                    k = prog.const(fi.module, x.keys[0])
                    out.append((k if isinstance(k, str) else None, x.values[0], n))
                return out, lit.keys[0], None
        raise AnalysisError(f"anchor vanished: `{{name: []}}` holder in {fi.qname}")
    out = []

    def visit(stmts):
        for s in stmts:
            if isinstance(s, ast.Expr) and isinstance(s.value, ast.Call) and isinstance(s.value.func, ast.Attribute) and s.value.func.attr in ("append", "insert"):
                c = s.value
                tgt = c.func.value
                if ((isinstance(tgt, ast.Subscript) and isinstance(tgt.value, ast.Name) and tgt.value.id == holder)
                        or (body_list is not None and isinstance(tgt, ast.Name) and tgt.id == body_list)) and c.args:
                    a = c.args[-1]
                    if isinstance(a, ast.Dict) and len(a.keys) == 1:
                        k = prog.const(fi.module, a.keys[0])
                        if c.func.attr == "insert":
                            out.append(("?insert", a.values[0], s))
                        else:
                            out.append((k if isinstance(k, str) else None, a.values[0], s))
                    else:
                        out.append((None, a, s))
            elif isinstance(s, (ast.For, ast.While, ast.If, ast.With, ast.Try)):
                # appends under control flow make the layout position-dependent on data: look inside only to detect them
                for n in ast.walk(s):
                    if isinstance(n, ast.Call) and isinstance(n.func, ast.Attribute) and n.func.attr in ("append", "insert") \
                            and ((isinstance(n.func.value, ast.Subscript) and isinstance(n.func.value.value, ast.Name) and n.func.value.value.id == holder)
                                 or (body_list is not None and isinstance(n.func.value, ast.Name) and n.func.value.id == body_list)):
                        out.append(("?conditional", None, s))
    visit(fi.node.body)
    return out, name_expr, holder


def reader_layout(ctx, fi: FuncInfo):
    """[(index, key, subscript node, bound variable or None)] for every body[i][key] read;
    the body variable is found from `name, body = d.popitem()` or `body = _[1]`"""
    prog = ctx.prog
    bodyvars = set()
    for n in ast.walk(fi.node):
        if isinstance(n, ast.Assign) and len(n.targets) == 1:
            t, v = n.targets[0], n.value
            if isinstance(t, ast.Tuple) and len(t.elts) == 2 and isinstance(v, ast.Call) and isinstance(v.func, ast.Attribute) and v.func.attr == "popitem":
                if isinstance(t.elts[1], ast.Name):
                    bodyvars.add(t.elts[1].id)
            if isinstance(t, ast.Name) and isinstance(v, ast.Subscript) and prog.const(fi.module, v.slice) == 1 and isinstance(v.value, ast.Name):
                # body = _[1] where _ = d.popitem()
                for m in ast.walk(fi.node):
                    if isinstance(m, ast.Assign) and len(m.targets) == 1 and isinstance(m.targets[0], ast.Name) and m.targets[0].id == v.value.id \
                            and isinstance(m.value, ast.Call) and isinstance(m.value.func, ast.Attribute) and m.value.func.attr == "popitem":
                        bodyvars.add(t.id)
    if not bodyvars:
        raise AnalysisError(f"anchor vanished: body list of the one-key dict in {fi.qname}")
    reads = []
    for n in ast.walk(fi.node):
        if isinstance(n, ast.Subscript) and isinstance(n.value, ast.Subscript) and isinstance(n.value.value, ast.Name) and n.value.value.id in bodyvars:
            i = prog.const(fi.module, n.value.slice)
            k = prog.const(fi.module, n.slice)
            reads.append((i if isinstance(i, int) else None, k if isinstance(k, str) else None, n))
    other = []
    for n in ast.walk(fi.node):
        if isinstance(n, ast.Name) and n.id in bodyvars and isinstance(n.ctx, ast.Load):
            other.append(n)
    return reads, bodyvars, len(other)


def bound_var(fi: FuncInfo, sub: ast.Subscript) -> Optional[str]:
    for n in ast.walk(fi.node):
        if isinstance(n, ast.Assign) and n.value is sub and len(n.targets) == 1 and isinstance(n.targets[0], ast.Name):
            return n.targets[0].id
    return None


def init_param_fields(ctx) -> Dict[str, str]:
    """Node.__init__ parameter -> field it initialises"""
    nm = ctx.world.nm
    init = nm.ci.methods["__init__"]
    out = {}
    for n in ast.walk(init.node):
        if isinstance(n, ast.Assign):
            for t in n.targets:
                if isinstance(t, ast.Attribute) and isinstance(t.value, ast.Name) and t.value.id == init.params[0] and t.attr in nm.fields:
                    for x in ast.walk(n.value):
                        if isinstance(x, ast.Name) and x.id in init.params[1:]:
                            out[x.id] = t.attr
    return out


def method_field(ctx, name: str) -> Optional[str]:
    """the single Node field a small mutator method (add_attribute, add_extras, add_namespace, add_child) writes on self"""
    nm = ctx.world.nm
    m = nm.ci.methods.get(name)
    if m is None:
        return None
    fields = set()
    selfp = m.params[0]
    for n in ast.walk(m.node):
        tgt = None
        if isinstance(n, ast.Assign):
            for t in n.targets:
                if isinstance(t, ast.Subscript):
                    tgt = t.value
                elif isinstance(t, ast.Attribute):
                    tgt = t
        if isinstance(n, ast.Call) and isinstance(n.func, ast.Attribute) and n.func.attr in ("append", "insert", "update", "add"):
            tgt = n.func.value
        if isinstance(tgt, ast.Attribute) and isinstance(tgt.value, ast.Name) and tgt.value.id == selfp:
            f = nm.canon(tgt.attr)
            if f:
                fields.add(f)
    if name == "add_child":
        return "_children"
    if name == "add_namespace":
        return "_nsmap"
    return fields.pop() if len(fields) == 1 else None


def sinks_of(ctx, fi: FuncInfo, var: Optional[str], node_var: Optional[str], source_loop=None):
    """fields of the node under construction that values derived from ``var`` flow into.  Names bound by a loop over a derived
    value are derived inside that loop only (the same loop-variable name may be reused by a loop over something else)."""
    nm = ctx.world.nm
    ipf = init_param_fields(ctx)
    out = set()

    def loop_iter_base(it):
        if isinstance(it, ast.Call) and isinstance(it.func, ast.Attribute) and it.func.attr in ("items", "keys", "values") and not it.args:
            it = it.func.value
        if isinstance(it, ast.Call) and isinstance(it.func, ast.Name) and it.func.id in ("enumerate", "list", "sorted", "reversed", "iter") and it.args:
            it = it.args[0]
        return it

    def uses(e, derived):
        return any(isinstance(x, ast.Name) and x.id in derived for x in ast.walk(e))

    def visit(stmts, derived):
        derived = set(derived)
        for s_ in stmts:
            if isinstance(s_, ast.Assign) and len(s_.targets) == 1 and isinstance(s_.targets[0], ast.Name):
                if uses(s_.value, derived):
                    derived.add(s_.targets[0].id)
                elif s_.targets[0].id in derived and s_.targets[0].id != var:
                    derived.discard(s_.targets[0].id)
            # sinks in the expressions of this statement (not in nested blocks: those are visited with their own scope)
            heads = []
            for fld, v in ast.iter_fields(s_):
                if fld in ("body", "orelse", "finalbody", "handlers"):
                    continue
                if isinstance(v, ast.AST):
                    heads.append(v)
                elif isinstance(v, list):
                    heads.extend(x for x in v if isinstance(x, ast.AST))
            for h in heads:
                for n in ast.walk(h):
                    if isinstance(n, ast.Call):
                        f = n.func
                        if isinstance(f, ast.Attribute) and any(uses(a, derived) for a in n.args):
                            mf = method_field(ctx, f.attr)
                            if mf:
                                out.add(mf)
                        if isinstance(f, ast.Name) and f.id == "Node":
                            init = nm.ci.methods["__init__"]
                            pos = init.params[1:]
                            for i, a in enumerate(n.args):
                                if uses(a, derived) and i < len(pos) and pos[i] in ipf:
                                    out.add(ipf[pos[i]])
                            for kw in n.keywords:
                                if uses(kw.value, derived) and kw.arg in ipf:
                                    out.add(ipf[kw.arg])
            if isinstance(s_, ast.Assign):
                for t in s_.targets:
                    if isinstance(t, ast.Attribute) and uses(s_.value, derived):
                        f = nm.canon(t.attr)
                        if f:
                            out.add(f)
            # nested blocks
            if isinstance(s_, ast.For):
                inner = set(derived)
                b = loop_iter_base(s_.iter)
                names_t = {x.id for x in ast.walk(s_.target) if isinstance(x, ast.Name)}
                if uses(b, derived) or s_ is source_loop:
                    inner |= names_t
                else:
                    inner -= names_t
                visit(s_.body, inner)
                visit(s_.orelse, derived)
            else:
                for fld in ("body", "orelse", "finalbody"):
                    b = getattr(s_, fld, None)
                    if isinstance(b, list) and b and isinstance(b[0], ast.stmt):
                        visit(b, derived)
                if isinstance(s_, ast.Try):
                    for h in s_.handlers:
                        visit(h.body, derived)
    visit(fi.node.body, {var} if var else set())
    return out
